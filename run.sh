#!/bin/bash
# usage: run.sh <property> <quick|thorough>   |   run.sh replay <file>   |   run.sh build
# Rebuilds the simulator against /repo's current working tree (replace directive in sim/go.mod),
# then runs the check. Exit 0 held / 1 violation / 2 harness or build trouble.
set -u
ROOT="$(cd "$(dirname "$0")" && pwd)"
# VERIF_DIR: where evidence/, replays/ and known_findings.json live (default: next to this script).
export VERIF_DIR="${VERIF_OUT:-$ROOT}"
# VERIF_REPO: tree of gmrtd to build against (default /repo, via the replace directive in sim/go.mod).
# Only used for trials against scratch worktrees; registered commands always build /repo itself.
REPO="${VERIF_REPO:-/repo}"
cd "$ROOT/sim" || exit 2
export GOFLAGS=-mod=mod GOPROXY=off GOSUMDB=off GOTOOLCHAIN=local
GO=go1.26.8
command -v $GO >/dev/null 2>&1 || GO=/opt/veriftools/go1.26.8/bin/go
BUILD="$ROOT/.build"
MODFLAG=""
if [ "$REPO" != "/repo" ]; then
  BUILD="$BUILD/alt-$(echo "$REPO" | tr -c 'A-Za-z0-9' '_')"
  mkdir -p "$BUILD"
  sed "s|=> /repo|=> $REPO|" go.mod > "$BUILD/go.mod"; cp go.sum "$BUILD/go.sum"
  MODFLAG="-modfile=$BUILD/go.mod"
fi
mkdir -p "$BUILD"
build() {
  local out=$BUILD/sim
  if ! $GO build $MODFLAG -o "$out" ./cmd/sim 2>$BUILD/build.log; then
    echo "BUILD-FAILED (see $BUILD/build.log)"; tail -n 30 $BUILD/build.log; return 2
  fi
}
# C20: race-detector build against an INSTRUMENTED scratch copy of the tree under test (yield points inside the
# library's own code, inserted by sim/cmd/instr). The copy lives outside /repo and /verif and is removed after the build.
build_race() {
  local out=$BUILD/sim-race
  local scr="/var/tmp/verif-c20-src-$$"
  rm -rf "$scr"; mkdir -p "$scr" || return 2
  if ! rsync -a --exclude .git "$REPO"/ "$scr"/ 2>$BUILD/build-race.log; then echo "BUILD-FAILED (copy)"; rm -rf "$scr"; return 2; fi
  if ! $GO build -o "$BUILD/instr" ./cmd/instr 2>>$BUILD/build-race.log || ! "$BUILD/instr" "$scr" reader verifier mobile cms passiveauth document >>$BUILD/build-race.log 2>&1; then
    echo "BUILD-FAILED (instrumenter; see $BUILD/build-race.log)"; tail -n 20 $BUILD/build-race.log; rm -rf "$scr"; return 2
  fi
  sed "s|=> /repo|=> $scr|" go.mod > "$BUILD/go.c20.mod"; cp go.sum "$BUILD/go.c20.sum"
  if ! $GO build -modfile="$BUILD/go.c20.mod" -race -tags vyinstr -o "$out" ./cmd/sim 2>>$BUILD/build-race.log; then
    echo "BUILD-FAILED (see $BUILD/build-race.log)"; tail -n 30 $BUILD/build-race.log; rm -rf "$scr"; return 2
  fi
  rm -rf "$scr"
}
needs_race() {
  case "$1" in C20) return 0 ;; esac
  if [ -f "$1" ] && grep -q '"property": *"C20"' "$1" 2>/dev/null; then return 0; fi
  return 1
}
case "${1:-}" in
  build) build && build_race; exit $? ;;
  replay)
    if needs_race "$2"; then build_race || exit 2; export GORACE="halt_on_error=0 exitcode=0 history_size=7"; exec $BUILD/sim-race replay "$2"; fi
    build || exit 2; exec $BUILD/sim replay "$2" ;;
  "") echo "usage: run.sh <property> <quick|thorough>"; exit 2 ;;
esac
if needs_race "$1"; then
  build_race || exit 2
  export GORACE="halt_on_error=0 exitcode=0 history_size=7"
  exec $BUILD/sim-race check "$1" "${2:-quick}"
fi
build || exit 2
exec $BUILD/sim check "$1" "${2:-quick}"
