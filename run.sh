#!/bin/bash
# usage: run.sh <property> <quick|thorough>   |   run.sh replay <file>   |   run.sh build
# Rebuilds the simulator against /repo's current working tree (replace directive in sim/go.mod),
# then runs the check. Exit 0 held / 1 violation / 2 harness or build trouble.
set -u
ROOT="$(cd "$(dirname "$0")" && pwd)"
export VERIF_DIR="$ROOT"
cd "$ROOT/sim" || exit 2
export GOFLAGS=-mod=mod GOPROXY=off GOSUMDB=off GOTOOLCHAIN=local
GO=go1.26.8
command -v $GO >/dev/null 2>&1 || GO=/opt/veriftools/go1.26.8/bin/go
mkdir -p $ROOT/.build
build() {
  local out=$ROOT/.build/sim
  if ! $GO build -o "$out" ./cmd/sim 2>$ROOT/.build/build.log; then
    echo "BUILD-FAILED (see $ROOT/.build/build.log)"; tail -n 30 $ROOT/.build/build.log; return 2
  fi
}
build_race() {
  local out=$ROOT/.build/sim-race
  if ! $GO build -race -o "$out" ./cmd/sim 2>$ROOT/.build/build-race.log; then
    echo "BUILD-FAILED (see $ROOT/.build/build-race.log)"; tail -n 30 $ROOT/.build/build-race.log; return 2
  fi
}
needs_race() {
  case "$1" in C20) return 0 ;; esac
  if [ -f "$1" ] && grep -q '"property": *"C20"' "$1" 2>/dev/null; then return 0; fi
  return 1
}
case "${1:-}" in
  build) build && build_race; exit $? ;;
  replay)
    if needs_race "$2"; then build_race || exit 2; export GORACE="halt_on_error=0 exitcode=0"; exec $ROOT/.build/sim-race replay "$2"; fi
    build || exit 2; exec $ROOT/.build/sim replay "$2" ;;
  "") echo "usage: run.sh <property> <quick|thorough>"; exit 2 ;;
esac
if needs_race "$1"; then
  build_race || exit 2
  export GORACE="halt_on_error=0 exitcode=0"
  exec $ROOT/.build/sim-race check "$1" "${2:-quick}"
fi
build || exit 2
exec $ROOT/.build/sim check "$1" "${2:-quick}"
