#!/bin/bash
# usage: run.sh <property> <quick|thorough>   |   run.sh replay <file>   |   run.sh build
# Rebuilds the simulator against /repo's current working tree (replace directive in sim/go.mod),
# then runs the check. Exit 0 held / 1 violation / 2 harness or build trouble.
set -u
cd "$(dirname "$0")/sim" || exit 2
export GOFLAGS=-mod=mod GOPROXY=off GOSUMDB=off GOTOOLCHAIN=local
GO=go1.26.8
command -v $GO >/dev/null 2>&1 || GO=/opt/veriftools/go1.26.8/bin/go
mkdir -p /verif/.build
build() {
  local out=/verif/.build/sim
  if ! $GO build -o "$out" ./cmd/sim 2>/verif/.build/build.log; then
    echo "BUILD-FAILED (see /verif/.build/build.log)"; tail -n 30 /verif/.build/build.log; return 2
  fi
}
case "${1:-}" in
  build) build; exit $? ;;
  replay) build || exit 2; exec /verif/.build/sim replay "$2" ;;
  "") echo "usage: run.sh <property> <quick|thorough>"; exit 2 ;;
esac
build || exit 2
exec /verif/.build/sim check "$1" "${2:-quick}"
