package engines

import (
	"bytes"
	"context"
	"crypto/sha256"
	"encoding/hex"
	"encoding/json"
	"fmt"
	"io"
	"log/slog"
	"os"
	"os/exec"
	"runtime"
	"sort"
	"strings"
	"sync"
	"time"
	_ "unsafe"

	"github.com/anishathalye/porcupine"
	"github.com/gmrtd/gmrtd/cms"
	"github.com/gmrtd/gmrtd/document"
	"github.com/gmrtd/gmrtd/iso7816"
	"github.com/gmrtd/gmrtd/mobile"
	"github.com/gmrtd/gmrtd/password"
	"github.com/gmrtd/gmrtd/reader"
	"github.com/gmrtd/gmrtd/verifier"

	"verif/sim/chip"
	"verif/sim/core"
	"verif/sim/sched"
	"verif/sim/term"
	"verif/sim/world"
)

// sched engine (C20): 2-4 caller goroutines with scripts of public API calls on shared and on
// independent objects, run under the seeded cooperative scheduler in a race-detector build.
// Oracles: zero race reports; linearizability against the real code executed alone (porcupine);
// independent instances equal their lone execution; built-in trust store initialised once; no deadlock.

type SchedCase struct {
	Scenario string `json:"scenario"` // A shared reader | B shared verifier | C independent+shared pool | D mobile
	Seed     uint64 `json:"seed"`
	Workers  int    `json:"workers"`
	OpsPer   int    `json:"ops_per"`
	KeepBias int    `json:"keep_bias"`
	PoolKind string `json:"pool_kind,omitempty"` // generic | combined | signeddata (scenario C)
}

type SchedEngine struct{}

func (SchedEngine) Name() string { return "sched" }
func (SchedEngine) Decode(raw json.RawMessage) (any, error) {
	var c SchedCase
	err := json.Unmarshal(raw, &c)
	return c, err
}

func (SchedEngine) Gen(prop, tier string, seed uint64, yield func(c any) bool) {
	n := 256
	if tier == "thorough" {
		n = 20000
	}
	rng := core.NewRng(core.SubSeed(seed, "sched", tier))
	scen := []string{"A", "B", "C", "E", "A", "B", "C", "E", "D", "A", "B", "C"}
	for i := 0; i < n; i++ {
		c := SchedCase{Scenario: scen[i%len(scen)], Seed: rng.U64(), Workers: rng.Range(2, 3), OpsPer: rng.Range(1, 2), KeepBias: core.Pick(rng, []int{500, 650, 800, 950, 990, 997})}
		if rng.Chance(1, 6) {
			c.Workers = 4
			c.OpsPer = 1
		}
		// the combined pool (the type of the built-in trust store) gets half of the runs
		c.PoolKind = []string{"combined", "generic", "combined", "signeddata"}[(i/len(scen))%4]
		if !yield(c) {
			return
		}
	}
}

func (SchedEngine) Shrink(ci any) []any {
	c := ci.(SchedCase)
	var out []any
	add := func(m func(y *SchedCase)) {
		y := c
		m(&y)
		if y != c {
			out = append(out, y)
		}
	}
	add(func(y *SchedCase) { y.Workers = 2 })
	add(func(y *SchedCase) { y.OpsPer = 1 })
	add(func(y *SchedCase) { y.KeepBias = 997 })
	add(func(y *SchedCase) { y.KeepBias = 800 })
	return out
}

// ---- seams used as yield points

var activeSched *sched.Sched
var seqOp = -1 // op id in sequential re-execution

func schedYield(site string) {
	if s := activeSched; s != nil {
		s.Yield(site)
	}
}

//go:norace
func currentOpID() int {
	if s := activeSched; s != nil {
		return s.CurrentOp()
	}
	return seqOp
}

// opRand serves a per-operation random stream, so the bytes a call sees do not depend on interleaving.
type opRand struct {
	seed    uint64
	streams []*core.Rng
}

func newOpRand(seed uint64, n int) *opRand {
	r := &opRand{seed: seed}
	for i := 0; i < n; i++ {
		r.streams = append(r.streams, core.NewRng(core.SubSeed(seed, "oprand", i)))
	}
	return r
}

func (r *opRand) Read(p []byte) (int, error) {
	schedYield("rand")
	id := currentOpID()
	if id < 0 || id >= len(r.streams) {
		id = len(r.streams) - 1
	}
	return r.streams[id].Read(p)
}

var _ io.Reader = (*opRand)(nil)

// yieldPool wraps the shared CertPool: every lookup is a yield point.
type yieldPool struct{ p cms.CertPool }

func (y yieldPool) BySKI(ski []byte) []cms.Certificate {
	schedYield("pool.BySKI")
	return y.p.BySKI(ski)
}
func (y yieldPool) ByIssuerAndSerial(raw []byte) ([]cms.Certificate, error) {
	schedYield("pool.ByIssuerAndSerial")
	return y.p.ByIssuerAndSerial(raw)
}
func (y yieldPool) ByIssuerCountry(c string) []cms.Certificate {
	schedYield("pool.ByIssuerCountry")
	return y.p.ByIssuerCountry(c)
}
func (y yieldPool) All() []cms.Certificate {
	schedYield("pool.All")
	return y.p.All()
}

type yieldStatus struct{}

func (yieldStatus) Status(reader.Status) { schedYield("status") }

type yieldMobileStatus struct{}

func (yieldMobileStatus) Status(phase, dg int) { schedYield("status") }

// countingSlog is the slog handler of scenario D: it lets master-list initialisation be observed.
type countingSlog struct {
	mu    *sync.Mutex
	count *int
}

func (h countingSlog) Enabled(context.Context, slog.Level) bool { return true }
func (h countingSlog) Handle(_ context.Context, r slog.Record) error {
	if r.Message == "CreateCertPoolFromSignedData" {
		// harness-owned lock; taken while no other worker runs, and only inside the sync.Once critical section
		*h.count++
	}
	schedYield("slog")
	return nil
}
func (h countingSlog) WithAttrs([]slog.Attr) slog.Handler { return h }
func (h countingSlog) WithGroup(string) slog.Handler      { return h }

// ---- fingerprints of call results

func fpDoc(d *document.DocumentEx, err error) (fp string) {
	if sc := activeSched; sc != nil {
		sc.Quiet(func() { fp = fpDocRaw(d, err) })
		return fp
	}
	return fpDocRaw(d, err)
}

func fpDocRaw(d *document.DocumentEx, err error) string {
	h := sha256.New()
	fmt.Fprintf(h, "err=%v;", err != nil)
	if d != nil {
		files := docFileMap(&d.Document)
		var keys []string
		for k := range files {
			keys = append(keys, k)
		}
		sort.Strings(keys)
		for _, k := range keys {
			s := sha256.Sum256(files[k])
			fmt.Fprintf(h, "%s=%x;", k, s[:6])
		}
		v := verdictsOf(d)
		fmt.Fprintf(h, "%+v;", v)
		s := d.Session
		fmt.Fprintf(h, "pace=%v;bac=%v;", s.PaceResult != nil && s.PaceResult.Success, s.BacResult != nil && s.BacResult.Success)
		if s.ActiveAuthResult != nil && s.ActiveAuthResult.Evidence != nil {
			fmt.Fprintf(h, "nonce=%x;", s.ActiveAuthResult.Evidence.Nonce)
		}
	}
	return hex.EncodeToString(h.Sum(nil)[:10])
}

// ---- environments

type schedEnv struct {
	ops     []*sched.Op
	scripts [][]int
	initCnt *int
}

func worldA(seed uint64) world.WorldSpec {
	return world.WorldSpec{Seed: seed, Country: 1, CSCA: world.KeySpec{Kind: "ec", CurveID: 12}, CSCAScheme: world.SchemeSpec{Kind: "ecdsa", Hash: "SHA256"},
		DS: world.KeySpec{Kind: "ec", CurveID: 12}, DSScheme: world.SchemeSpec{Kind: "ecdsa", Hash: "SHA256"}, DGHash: "SHA256", SIDForm: "issuerSerial", LDSVersion: 1,
		BAC: true, PACE: []world.PaceSpec{{Suite: chip.AES128, ParamID: 12}}, Password: "mrz", AA: &world.AASpec{Kind: "ec", CurveID: 12},
		DGs: []int{1, 2, 7}, DG2Size: 40, DG7Size: 30, B: chip.DefaultBehaviour(), MaxLe: 256, Layout: "TD3"}
}

type scriptGen struct {
	rng *core.Rng
}

// buildEnv creates fresh objects for a scenario. All per-run state is created here, so that a
// sequential re-execution starts from an identical world.
func buildEnv(c SchedCase) *schedEnv {
	env := &schedEnv{}
	rng := core.NewRng(core.SubSeed(c.Seed, "script"))
	nOps := c.Workers * c.OpsPer
	if c.Scenario == "E" {
		nOps = c.Workers * (c.OpsPer + 2) // pool calls are cheap: longer scripts, so that later calls see what earlier overlaps left behind
	}
	orand := newOpRand(c.Seed, nOps+1)
	term.SetTerminalRandom(orand)
	addOp := func(name string, guard func() bool, call func() string) *sched.Op {
		op := &sched.Op{ID: len(env.ops), Name: name, Guard: guard, Call: call}
		env.ops = append(env.ops, op)
		return op
	}
	chal := func(i int) []byte { return core.NewRng(core.SubSeed(c.Seed, "chal", i)).Bytes(8) }
	switch c.Scenario {
	case "A":
		specA := worldA(c.Seed)
		targeted := rng.Chance(3, 4)
		if targeted {
			// a longer read (several chunks per image file), so that calls of other workers fall between its steps
			specA.DG2Size, specA.DG7Size = 8000, 300
		}
		w := world.Build(specA)
		ch := w.NewChip()
		link := term.NewLink(ch, nil, nil)
		link.Hook = func(int) { schedYield("transceive") }
		nfc := iso7816.NewNfcSession(link)
		rd := reader.NewReader(yieldStatus{}, nfc, yieldPool{w.Pool})
		pass, _ := w.PasswordFor()
		guard := sched.MutexGuard(rd, "mu")
		haveRead := false
		for i := 0; i < nOps; i++ {
			k := rng.Intn(5)
			if i == nOps-1 && !haveRead {
				k = 0
			}
			if i == 0 && rng.Chance(2, 3) {
				k = 0 // ops are dealt round-robin: worker 0 usually opens with a read that the others' calls fall into
			}
			if targeted {
				// worker 0 reads; the other workers issue configuration calls (mostly eagerly, i.e. while the read runs)
				switch {
				case i%c.Workers == 0:
					k = 0
				case rng.Chance(5, 6):
					k = 2 + rng.Intn(3)/2 // SkipImages twice as often as SkipPace: it is consulted once per data group
				}
			}
			idx := i
			// configuration calls may be started while a read holds the reader (they must then wait their turn)
			eager := rng.Chance(2, 3) || (targeted && rng.Chance(2, 3))
			delay := 0
			if targeted && rng.Chance(9, 10) {
				delay = rng.Intn(1400) // somewhere inside (or just after) worker 0's read, which takes about 1300 yield points here
			}
			switch k {
			case 0, 1:
				haveRead = true
				addOp("ReadDocument", guard, func() string {
					d, _, err := rd.ReadDocument(pass, nil, nil)
					return fpDoc(d, err)
				}).Eager = i > 0 && rng.Chance(1, 2) // a second read may be started while the first holds the reader
			case 2:
				op := addOp("SkipImages", guard, func() string { rd.SkipImages(); return "" })
				op.Eager, op.NotBefore = eager, delay
			case 3:
				op := addOp("SkipPace", guard, func() string { rd.SkipPace(); return "" })
				op.Eager, op.NotBefore = eager, delay
			case 4:
				addOp("WithAAChallenge", guard, func() string {
					_, err := rd.WithAAChallenge(chal(idx))
					return fmt.Sprint(err != nil)
				}).Eager = eager
			}
		}
	case "B", "C":
		// documents from several worlds with disjoint signing calendars
		var blobs [][]byte
		var pools []cms.CertPool
		combined := &cms.CombinedCertPool{}
		gen := &cms.GenericCertPool{}
		var cscas [][]byte
		for i := 0; i < 3; i++ {
			spec := worldA(core.SubSeed(c.Seed, "doc", i))
			spec.Country = i + 1
			spec.AA = &world.AASpec{Kind: "ec", CurveID: 12}
			if i == 1 {
				spec.AA = nil
				spec.CA = &world.CASpec{CurveID: 13, Suites: []string{chip.AES128}}
			}
			o := &core.Outcome{}
			seqOp = nOps
			r := runReadQuiet(spec, o)
			if r.Doc != nil {
				b, _ := r.Doc.ToCbor()
				blobs = append(blobs, b)
			}
			pools = append(pools, r.W.Pool)
			gen.AddCerts(r.W.Pool.All())
			combined.AddCertPool(r.W.Pool)
			cscas = append(cscas, r.W.CSCACert.DER)
		}
		term.SetTerminalRandom(orand)
		var shared cms.CertPool = gen
		switch c.PoolKind {
		case "combined":
			shared = combined
		case "signeddata":
			// a pool of the SignedDataCertPool type holding the same certificates
			sp := &cms.SignedDataCertPool{}
			for _, cc := range cscas {
				sp.Add(cc)
			}
			shared = sp
		}
		pool := yieldPool{shared}
		if len(blobs) == 0 {
			return env
		}
		if c.Scenario == "B" {
			v := verifier.NewVerifier(pool)
			guard := sched.MutexGuard(v, "mu")
			for i := 0; i < nOps; i++ {
				idx := i
				if rng.Chance(2, 3) || i == nOps-1 {
					b := blobs[rng.Intn(len(blobs))]
					addOp("Verify", guard, func() string {
						d, err := v.Verify(b)
						return fpDoc(d, err)
					}).Eager = i > 0 && rng.Chance(1, 2)
				} else {
					addOp("WithAAChallenge", guard, func() string {
						_, err := v.WithAAChallenge(chal(idx))
						return fmt.Sprint(err != nil)
					}).Eager = rng.Chance(1, 2)
				}
			}
		} else {
			// independent verifiers and readers sharing one pool
			for i := 0; i < nOps; i++ {
				if rng.Chance(2, 3) {
					b := blobs[rng.Intn(len(blobs))]
					v := verifier.NewVerifier(pool)
					addOp("Verify(own)", sched.MutexGuard(v, "mu"), func() string {
						d, err := v.Verify(b)
						return fpDoc(d, err)
					})
				} else {
					spec := worldA(core.SubSeed(c.Seed, "doc", rng.Intn(3)))
					spec.Country = 1 + int(spec.Seed%3)
					w := world.Build(spec)
					ch := w.NewChip()
					link := term.NewLink(ch, nil, nil)
					link.Hook = func(int) { schedYield("transceive") }
					nfc := iso7816.NewNfcSession(link)
					rd := reader.NewReader(yieldStatus{}, nfc, pool)
					pass, _ := w.PasswordFor()
					addOp("ReadDocument(own)", sched.MutexGuard(rd, "mu"), func() string {
						d, _, err := rd.ReadDocument(pass, nil, nil)
						return fpDoc(d, err)
					})
				}
			}
		}
	case "E":
		// independent verifications through the cms API on one cold shared pool of each concrete type
		var sods []*document.SOD
		gen := &cms.GenericCertPool{}
		sdp := &cms.SignedDataCertPool{}
		comb := &cms.CombinedCertPool{}
		var skis [][]byte
		var countries []string
		for i := 0; i < 3; i++ {
			spec := worldA(core.SubSeed(c.Seed, "doc", i))
			spec.Country = i + 1
			w := world.Build(spec)
			sod, err := document.NewSOD(w.LDS[chip.FidSOD])
			if err != nil {
				continue
			}
			sods = append(sods, sod)
			gen.Add(w.CSCACert.DER)
			sdp.Add(w.CSCACert.DER)
			p := &cms.GenericCertPool{}
			p.Add(w.CSCACert.DER)
			comb.AddCertPool(p)
			skis = append(skis, w.CSCACert.Spec.SKI)
			countries = append(countries, w.Alpha2)
		}
		var shared cms.CertPool = gen
		switch c.PoolKind {
		case "combined":
			shared = comb
		case "signeddata":
			shared = sdp
		}
		if len(sods) == 0 {
			return env
		}
		fpCerts := func(cs []cms.Certificate) string {
			h := sha256.New()
			for _, x := range cs {
				h.Write(x.Raw)
			}
			return fmt.Sprintf("%d/%x", len(cs), h.Sum(nil)[:6])
		}
		for i := 0; i < nOps; i++ {
			j := rng.Intn(len(sods))
			k := rng.Intn(5)
			if c.PoolKind == "combined" && rng.Chance(1, 3) {
				k = 3 // country look-ups across the member pools: the operation the built-in trust store serves most
			}
			switch k {
			case 0, 1:
				addOp("SignedData.Verify(shared pool)", nil, func() string {
					chain, err := sods[j].SD.Verify(shared)
					h := sha256.New()
					for _, x := range chain {
						h.Write(x)
					}
					return fmt.Sprintf("%v/%d/%x", err != nil, len(chain), h.Sum(nil)[:6])
				})
			case 2:
				addOp("pool.BySKI", nil, func() string { return fpCerts(shared.BySKI(skis[j])) })
			case 3:
				addOp("pool.ByIssuerCountry", nil, func() string { return fpCerts(shared.ByIssuerCountry(countries[j])) })
			case 4:
				addOp("pool.All", nil, func() string { return fpCerts(shared.All()) })
			}
		}
	case "D":
		w := world.Build(worldA(c.Seed))
		ch := w.NewChip()
		link := term.NewLink(ch, nil, nil)
		link.Hook = func(int) { schedYield("transceive") }
		mr := mobile.NewReader(yieldMobileStatus{}, link)
		mv := mobile.NewVerifier()
		mp, _ := mobile.NewPasswordMrz(w.Holder.MRZ())
		var blob []byte
		{
			o := &core.Outcome{}
			seqOp = nOps
			r := runReadQuiet(worldA(core.SubSeed(c.Seed, "doc", 0)), o)
			if r.Doc != nil {
				blob, _ = r.Doc.ToCbor()
			}
			term.SetTerminalRandom(orand)
		}
		once := sched.OnceGuard(&mobileCscaOnce)
		gr := sched.And(sched.MutexGuard(mr, "mu"), once)
		gv := sched.And(sched.MutexGuard(mv, "mu"), once)
		cnt := 0
		env.initCnt = &cnt
		for i := 0; i < nOps; i++ {
			idx := i
			switch rng.Intn(6) {
			case 0:
				addOp("mobile.Preload", once, func() string { return fmt.Sprint(mobile.PreloadCscaCertPool() != nil) })
			case 1, 2:
				addOp("mobile.Reader.ReadDocument", gr, func() string {
					d, err := mr.ReadDocument(mp, nil, nil)
					if d == nil {
						return fmt.Sprintf("nil/%v", err != nil)
					}
					j, _ := d.SummaryJson()
					s := sha256.Sum256(j)
					return fmt.Sprintf("%x/%v", s[:8], err != nil)
				})
			case 3:
				addOp("mobile.Verifier.Verify", gv, func() string {
					d, err := mv.Verify(blob)
					if d == nil {
						return fmt.Sprintf("nil/%v", err != nil)
					}
					j, _ := d.SummaryJson()
					s := sha256.Sum256(j)
					return fmt.Sprintf("%x/%v", s[:8], err != nil)
				})
			case 4:
				addOp("mobile.Reader.SkipImages", sched.MutexGuard(mr, "mu"), func() string { mr.SkipImages(); return "" })
			case 5:
				addOp("mobile.Reader.WithAAChallenge", sched.MutexGuard(mr, "mu"), func() string {
					_, err := mr.WithAAChallenge(chal(idx))
					return fmt.Sprint(err != nil)
				})
			}
		}
	}
	// scripts: ops dealt round-robin to workers
	env.scripts = make([][]int, c.Workers)
	for i := range env.ops {
		env.scripts[i%c.Workers] = append(env.scripts[i%c.Workers], i)
	}
	return env
}

//go:linkname mobileCscaOnce github.com/gmrtd/gmrtd/mobile.cscaOnce
var mobileCscaOnce sync.Once

func runReadQuiet(spec world.WorldSpec, o *core.Outcome) *ReadRun {
	return runRead(spec, nil, o, nil)
}

// execSeq runs the ops of a fresh environment one after another in the given order (the sequential specification).
func execSeq(c SchedCase, order []int) map[int]string {
	saved := activeSched
	activeSched = nil
	defer func() { activeSched = saved }()
	env := buildEnv(c)
	out := map[int]string{}
	for _, id := range order {
		if id >= len(env.ops) {
			continue
		}
		seqOp = id
		out[id] = env.ops[id].Call()
	}
	seqOp = -1
	return out
}

func (SchedEngine) Run(prop string, ci any) *core.Outcome {
	c := ci.(SchedCase)
	if os.Getenv("VERIF_C20_DEBUG") != "" {
		sched.TraceLimit = 1 << 20
	}
	out := &core.Outcome{}
	if c.Scenario == "D" && os.Getenv("VERIF_SCHED_CHILD") == "" {
		return runSchedChild(c, out)
	}
	term.InstallSeams()
	defer term.RestoreRandom()
	if c.Scenario == "D" {
		// observe master-list initialisation through the slog seam
	}
	env := buildEnv(c)
	if len(env.ops) == 0 {
		out.Discarded = "harness: scenario could not be built"
		return out
	}
	if c.Scenario == "D" {
		slog.SetDefault(slog.New(countingSlog{count: env.initCnt}))
		defer term.InstallSeams()
	}
	s := sched.New(core.NewRng(core.SubSeed(c.Seed, "sched")), nil)
	s.KeepBias = c.KeepBias
	for _, sc := range env.scripts {
		var ops []*sched.Op
		for _, id := range sc {
			ops = append(ops, env.ops[id])
		}
		s.AddWorker(ops)
	}
	races0 := sched.RaceErrors()
	activeSched = s
	term.YieldHook = func(site string) { schedYield(site) }
	vyHookInstall(true)
	done := make(chan struct{})
	go func() { s.Run(); close(done) }()
	select {
	case <-done:
	case <-time.After(time.Duration(guardSeconds()) * time.Second):
		buf := make([]byte, 1<<20)
		n := runtime.Stack(buf, true)
		os.Stderr.Write(buf[:n])
		out.Violate("C20", "scheduler-stuck", c.Scenario, "run did not finish within the wall-clock guard (harness or library hang): %s", s.Describe())
		term.YieldHook = nil
		vyHookInstall(false)
		activeSched = nil
		return out
	}
	term.YieldHook = nil
	vyHookInstall(false)
	activeSched = nil
	if vyInstrumented {
		out.Probe("library_code_yield_points")
	}
	// fingerprint: the decision sequence and the outputs
	h := sha256.New()
	for i, p := range s.Picks {
		fmt.Fprintf(h, "%d@%s;", p, s.Sites[i])
	}
	calls := append([]sched.Call{}, s.Calls...)
	sort.Slice(calls, func(i, j int) bool { return calls[i].Op.ID < calls[j].Op.ID })
	for _, cl := range calls {
		fmt.Fprintf(h, "%d=%s;", cl.Op.ID, cl.Output)
	}
	out.Fingerprint = hex.EncodeToString(h.Sum(nil)[:12])
	out.Exchanges = s.Yields
	sig := c.Scenario
	// (1) no data race
	if d := sched.RaceErrors() - races0; d > 0 {
		out.Violate("C20", "data-race", sig, "the race detector reported %d data race(s) in scenario %s (report on stderr of the replay)", d, c.Scenario)
	}
	// (5) no deadlock
	if s.Deadlock != "" {
		out.Violate("C20", "deadlock", sig, "no worker is enabled but not all are finished: %s", s.Deadlock)
		return out
	}
	if s.Contend > 0 {
		out.Probe("lock_contended")
	}
	if s.Blocked > 0 {
		out.Probe("blocked_inside_library")
	}
	switches := 0
	for i := 1; i < len(s.Picks); i++ {
		if s.Picks[i] != s.Picks[i-1] {
			switches++
		}
	}
	if switches > len(env.scripts) {
		out.Probe("preempted_inside_call")
	}
	switch c.Scenario {
	case "A", "B", "D":
		// (2) linearizability against the real code executed alone
		memo := map[string]map[int]string{}
		model := porcupine.Model{
			Init: func() interface{} { return "" },
			Step: func(state, input, output interface{}) (bool, interface{}) {
				st := state.(string)
				id := input.(int)
				next := st + fmt.Sprintf("%d,", id)
				res, ok := memo[next]
				if !ok {
					var order []int
					for _, f := range strings.Split(strings.TrimSuffix(next, ","), ",") {
						var v int
						fmt.Sscan(f, &v)
						order = append(order, v)
					}
					if c.Scenario == "D" {
						res = execSeqD(c, order)
					} else {
						res = execSeq(c, order)
					}
					memo[next] = res
				}
				return res[id] == output.(string), next
			},
			Equal: func(a, b interface{}) bool { return a.(string) == b.(string) },
		}
		var hist []porcupine.Operation
		for _, cl := range s.Calls {
			hist = append(hist, porcupine.Operation{ClientId: cl.Worker, Input: cl.Op.ID, Call: int64(cl.Invoke), Output: cl.Output, Return: int64(cl.Return)})
		}
		res := porcupine.CheckOperationsTimeout(model, hist, 60*time.Second)
		if os.Getenv("VERIF_C20_DEBUG") != "" {
			for _, cl := range s.Calls {
				fmt.Fprintf(os.Stderr, "DBG %s w%d:%s#%d[%d,%d]=%s eager=%v nb=%d\n", out.Fingerprint[:8], cl.Worker, cl.Op.Name, cl.Op.ID, cl.Invoke, cl.Return, cl.Output, cl.Op.Eager, cl.Op.NotBefore)
			}
			fmt.Fprintf(os.Stderr, "DBG %s result=%v memo=%v yields=%d\n", out.Fingerprint[:8], res, memo, s.Yields)
			fmt.Fprintf(os.Stderr, "DBGTRACE %s picks=%v\n", out.Fingerprint[:8], s.Picks)
			fmt.Fprintf(os.Stderr, "DBGTRACE %s %s\n", out.Fingerprint[:8], strings.Join(s.Trace, " "))
		}
		switch res {
		case porcupine.Illegal:
			var desc []string
			for _, cl := range s.Calls {
				desc = append(desc, fmt.Sprintf("w%d:%s#%d[%d,%d]=%s", cl.Worker, cl.Op.Name, cl.Op.ID, cl.Invoke, cl.Return, cl.Output))
			}
			out.Violate("C20", "not-linearizable", sig, "the concurrent history is not equivalent to any sequential order of the same calls on a fresh object: %s", strings.Join(desc, " "))
		case porcupine.Unknown:
			out.Probe("linearizability_inconclusive")
		default:
			out.Probe("linearizable")
		}
		if c.Scenario == "D" && env.initCnt != nil {
			// (4) built-in trust store initialised at most once per process: two master lists -> two log records
			if *env.initCnt > 2 {
				out.Violate("C20", "trust-store-initialised-twice", "mobile", "built-in master lists were loaded %d times in one process (2 lists per initialisation)", *env.initCnt)
			}
			if *env.initCnt == 2 {
				out.Probe("once_initialised_in_this_run")
			}
		}
	case "C", "E":
		// (3) independent instances: each call's result equals its lone execution
		for _, cl := range s.Calls {
			lone := execSeq(c, []int{cl.Op.ID})
			if lone[cl.Op.ID] != cl.Output {
				out.Violate("C20", "independent-instance-differs", cl.Op.Name+"/"+c.PoolKind, "%s on its own object returned %s while running in parallel, %s alone", cl.Op.Name, cl.Output, lone[cl.Op.ID])
			}
		}
		out.Probe("independent_instances_checked")
	}
	var names []string
	for _, o := range env.ops {
		names = append(names, o.Name)
	}
	out.Key = fmt.Sprintf("%s|%s|w=%d|%s|%s", c.Scenario, c.PoolKind, c.Workers, strings.Join(names, ","), out.Fingerprint[:8])
	return out
}

// execSeqD: sequential specification for the mobile scenario (the sync.Once is already initialised
// in this process after the concurrent run, which does not change results).
func execSeqD(c SchedCase, order []int) map[int]string { return execSeq(c, order) }

// runSchedChild runs a scenario-D case in a fresh process (the built-in trust store's sync.Once is process-global).
func runSchedChild(c SchedCase, out *core.Outcome) *core.Outcome {
	self, _ := os.Executable()
	cj, _ := json.Marshal(c)
	cmd := exec.Command(self, "sched-child", string(cj))
	cmd.Env = append(os.Environ(), "VERIF_SCHED_CHILD=1")
	var stdout, stderr bytes.Buffer
	cmd.Stdout, cmd.Stderr = &stdout, &stderr
	err := cmd.Run()
	var o core.Outcome
	if jerr := json.Unmarshal(bytes.TrimSpace(stdout.Bytes()), &o); jerr != nil {
		out.Violate("C20", "child-crashed", "D", "scenario D child process failed: %v: %s", err, tail(stderr.String(), 600))
		return out
	}
	if strings.Contains(stderr.String(), "WARNING: DATA RACE") && len(o.Violations) > 0 {
		o.Violations[0].Detail += " | " + tail(stderr.String(), 1500)
	}
	return &o
}

func tail(s string, n int) string {
	if len(s) <= n {
		return s
	}
	return s[len(s)-n:]
}

// SchedChildMain is the entry point of the scenario-D child process.
func SchedChildMain(caseJSON string) int {
	var c SchedCase
	if err := json.Unmarshal([]byte(caseJSON), &c); err != nil {
		return 2
	}
	o := SchedEngine{}.Run("C20", c)
	b, _ := json.Marshal(o)
	fmt.Println(string(b))
	return 0
}

var _ = password.NewPasswordNil

func guardSeconds() int {
	if s := os.Getenv("VERIF_SCHED_GUARD_S"); s != "" {
		var v int
		if _, err := fmt.Sscan(s, &v); err == nil && v > 0 {
			return v
		}
	}
	return 600
}
