package engines

import (
	"bytes"
	"encoding/json"
	"fmt"

	"github.com/gmrtd/gmrtd/cryptoutils"
	"github.com/gmrtd/gmrtd/iso7816"

	"verif/sim/chip"
	"verif/sim/core"
	"verif/sim/term"
)

// ReadFile engine (C13): the real iso7816.NfcSession.ReadFile (plain and under secure
// messaging) against a SimChip holding one target file plus sibling files, under every
// response-splitting behaviour of the chip (the I/O faults of this seam).

type RFCase struct {
	Seed       uint64 `json:"seed"`
	ContentLen int    `json:"content_len"`
	TagLen     int    `json:"tag_len"`  // 1 or 2
	LenForm    int    `json:"len_form"` // 0 minimal, 1 force 81xx, 2 force 82xxxx
	MaxLe      int    `json:"max_le"`
	Suite      string `json:"suite"` // "" = no secure messaging
	MaxResp    int    `json:"max_resp,omitempty"`
	ShortMode  string `json:"short_mode,omitempty"`
	ShortFixed int    `json:"short_fixed,omitempty"`
	LeCap      int    `json:"le_cap,omitempty"`
	NoExtLen   bool   `json:"no_ext_len,omitempty"`
	EOFWarning bool   `json:"eof_warning,omitempty"`
	Absent     bool   `json:"absent,omitempty"`
	Siblings   bool   `json:"siblings,omitempty"`
	NoOddINS   bool   `json:"no_odd_ins,omitempty"`
	// link faults (C11 use of this engine): up to two, scalar fields keep the case comparable
	F1Kind string `json:"f1_kind,omitempty"`
	F1At   int    `json:"f1_at,omitempty"`
	F1A    int    `json:"f1_a,omitempty"`
	F1B    int    `json:"f1_b,omitempty"`
	F2Kind string `json:"f2_kind,omitempty"`
	F2At   int    `json:"f2_at,omitempty"`
	F2A    int    `json:"f2_a,omitempty"`
	F2B    int    `json:"f2_b,omitempty"`
}

func (c RFCase) faults() []term.Fault {
	var fs []term.Fault
	if c.F1Kind != "" {
		fs = append(fs, term.Fault{At: c.F1At, Kind: c.F1Kind, A: c.F1A, B: c.F1B})
	}
	if c.F2Kind != "" {
		fs = append(fs, term.Fault{At: c.F2At, Kind: c.F2Kind, A: c.F2A, B: c.F2B})
	}
	return fs
}

type ReadFileEngine struct{}

func (ReadFileEngine) Name() string { return "readfile" }

func (ReadFileEngine) Decode(raw json.RawMessage) (any, error) {
	var c RFCase
	err := json.Unmarshal(raw, &c)
	return c, err
}

func buildFile(rng *core.Rng, c RFCase) []byte {
	var out []byte
	if c.TagLen == 2 {
		out = append(out, 0x7F, 0x61)
	} else {
		out = append(out, 0x75)
	}
	n := c.ContentLen
	form := c.LenForm
	switch {
	case n >= 256:
		form = 2
	case n >= 128 && form < 1:
		form = 1
	}
	switch form {
	case 0:
		out = append(out, byte(n))
	case 1:
		out = append(out, 0x81, byte(n))
	default:
		out = append(out, 0x82, byte(n>>8), byte(n))
	}
	return append(out, rng.Bytes(n)...)
}

func smAlg(suite string) cryptoutils.BlockCipherAlg {
	if suite == chip.TDES {
		return cryptoutils.TDES
	}
	return cryptoutils.AES
}

func keyLen(suite string) int {
	switch suite {
	case chip.AES192:
		return 24
	case chip.AES256:
		return 32
	}
	return 16
}

var rfSizes = func() []int {
	var s []int
	for i := 0; i <= 40; i++ {
		s = append(s, i)
	}
	for _, c := range []int{124, 128, 252, 256, 260, 508, 1020, 32764, 32768, 33024, 33280, 65532} {
		for d := -6; d <= 6; d++ {
			if c+d >= 0 && c+d <= 65535 {
				s = append(s, c+d)
			}
		}
	}
	return s
}()

var rfMaxLe = []int{1, 2, 3, 4, 5, 7, 8, 16, 100, 127, 128, 129, 191, 192, 193, 223, 255, 256, 257, 300, 1000, 4096, 32767, 32768, 65535, 65536}

func genRF(rng *core.Rng, i int) RFCase {
	c := RFCase{Seed: rng.U64(), TagLen: 1 + rng.Intn(2), LenForm: rng.Intn(3)}
	if i%3 != 2 {
		c.ContentLen = rfSizes[(i/3)%len(rfSizes)]
	} else {
		switch rng.Intn(4) {
		case 0:
			c.ContentLen = rng.Range(0, 600)
		case 1:
			c.ContentLen = rng.Range(600, 20000)
		case 2:
			c.ContentLen = rng.Range(20000, 65535)
		default:
			c.ContentLen = rng.Range(32000, 34000)
		}
	}
	if rng.Chance(2, 3) {
		c.MaxLe = core.Pick(rng, rfMaxLe)
	} else {
		c.MaxLe = rng.Range(1, 65536)
	}
	// large files with tiny reads only hit the chunk limit; keep a share but bias towards feasible reads
	if c.ContentLen > 4000 && c.MaxLe < 64 && rng.Chance(3, 4) {
		c.MaxLe = core.Pick(rng, []int{128, 192, 224, 256, 1000, 65536})
	}
	c.Suite = core.Pick(rng, []string{"", "", chip.TDES, chip.AES128, chip.AES192, chip.AES256})
	switch rng.Intn(6) {
	case 0:
		c.MaxResp = core.Pick(rng, []int{1, 2, 3, 8, 31, 100, 223, 231, 255, 256, 1000})
	case 1:
		c.ShortMode = core.Pick(rng, []string{"one", "alt", "rand", "fixed"})
		c.ShortFixed = rng.Range(1, 300)
	case 2:
		c.LeCap = core.Pick(rng, []int{1, 100, 127, 128, 191, 192, 200, 223, 255, 256, 1000})
	}
	c.NoExtLen = rng.Chance(1, 3)
	c.EOFWarning = rng.Chance(1, 4)
	c.Absent = rng.Chance(1, 40)
	c.Siblings = rng.Chance(2, 3)
	c.NoOddINS = c.ContentLen > 32000 && rng.Chance(1, 3)
	return c
}

func (ReadFileEngine) Gen(prop, tier string, seed uint64, yield func(c any) bool) {
	n := 40000
	if tier == "thorough" {
		n = 3000000
	}
	if prop == "C11" {
		// the same reads with one or two link faults at a seeded exchange of the read: the result must be the file or an error
		n = 16000
		if tier == "thorough" {
			n = 1500000
		}
		rng := core.NewRng(core.SubSeed(seed, "readfile-faults", tier))
		for i := 0; i < n; i++ {
			c := genRF(rng, i)
			c.Absent = false
			if c.ContentLen > 3000 && rng.Chance(4, 5) {
				c.ContentLen = rng.Range(0, 3000)
			}
			if c.MaxLe < 16 && c.ContentLen > 600 {
				c.MaxLe = core.Pick(rng, []int{64, 100, 128, 255, 256})
			}
			chunk := c.MaxLe
			if chunk > 256 && c.NoExtLen {
				chunk = 256
			}
			for _, lim := range []int{c.MaxResp, c.LeCap} {
				if lim > 0 && lim < chunk {
					chunk = lim
				}
			}
			est := 2 + (c.ContentLen+8)/chunk + 1
			v := core.Pick(rng, faultVariants)
			if rng.Chance(1, 3) {
				v = faultVariant{"resp_oversize", core.Pick(rng, []int{1, 2, 5, 16, 300}), rng.Intn(3)}
			}
			c.F1Kind, c.F1At, c.F1A, c.F1B = v.kind, rng.Intn(est+1), v.a, v.b
			if rng.Chance(1, 4) {
				v2 := core.Pick(rng, faultVariants)
				c.F2Kind, c.F2At, c.F2A, c.F2B = v2.kind, rng.Intn(est+1), v2.a, v2.b
			}
			if !yield(c) {
				return
			}
		}
		return
	}
	rng := core.NewRng(core.SubSeed(seed, "readfile", tier))
	// grid part (every run of either tier): cells that the seeded part only meets by luck
	// (a) tiny files x chips that answer with 1..4 bytes: the header read itself is split
	for total := 0; total <= 6; total++ {
		for tagLen := 1; tagLen <= 2; tagLen++ {
			for lenForm := 0; lenForm <= 2; lenForm++ {
				for _, b := range []struct {
					maxResp    int
					mode       string
					shortFixed int
				}{{1, "", 0}, {2, "", 0}, {3, "", 0}, {4, "", 0}, {0, "fixed", 1}, {0, "fixed", 2}, {0, "fixed", 3}, {0, "one", 0}, {0, "alt", 0}, {0, "first", 1}, {0, "first", 2}} {
					for _, le := range []int{1, 2, 3, 4, 5, 256} {
						for _, suite := range []string{"", chip.AES128} {
							c := RFCase{Seed: rng.U64(), ContentLen: total, TagLen: tagLen, LenForm: lenForm, MaxLe: le, Suite: suite, MaxResp: b.maxResp, ShortMode: b.mode, ShortFixed: b.shortFixed, Siblings: rng.Bool()}
							if !yield(c) {
								return
							}
						}
					}
				}
			}
		}
	}
	// (b) reads that start exactly on an offset boundary (0x8000: first offset that no longer fits P1/P2; 0x10000: first
	// that needs three offset octets): read sizes that divide 32764 = 0x8000-4, or a short first block that shifts the
	// 256-byte grid onto the boundary (4 + 252 + 127*256 = 0x8000, 4 + 252 + 255*256 = 0x10000)
	for _, n := range []int{32766, 33000, 40000, 65530, 65531, 65533, 65535} {
		for _, g := range []struct {
			le         int
			mode       string
			shortFixed int
			maxResp    int
		}{{8191, "", 0, 0}, {16382, "", 0, 0}, {32764, "", 0, 0}, {256, "first", 252, 0}, {256, "first", 124, 0}, {255, "first", 129, 0}, {256, "first", 251, 0}, {256, "first", 253, 0}, {65536, "first", 252, 256}, {128, "first", 124, 0}} {
			for _, suite := range []string{"", chip.TDES, chip.AES256} {
				c := RFCase{Seed: rng.U64(), ContentLen: n, TagLen: 1 + rng.Intn(2), LenForm: 2, MaxLe: g.le, Suite: suite, ShortMode: g.mode, ShortFixed: g.shortFixed, MaxResp: g.maxResp, Siblings: rng.Bool()}
				if !yield(c) {
					return
				}
			}
		}
	}
	for i := 0; i < n; i++ {
		if !yield(genRF(rng, i)) {
			return
		}
	}
}

func (ReadFileEngine) Shrink(c any) []any {
	x := c.(RFCase)
	var out []any
	add := func(m func(*RFCase)) {
		y := x
		m(&y)
		if y != x {
			out = append(out, y)
		}
	}
	add(func(y *RFCase) { y.F2Kind, y.F2At, y.F2A, y.F2B = "", 0, 0, 0 })
	add(func(y *RFCase) {
		if y.F2Kind != "" {
			y.F1Kind, y.F1At, y.F1A, y.F1B = y.F2Kind, y.F2At, y.F2A, y.F2B
			y.F2Kind, y.F2At, y.F2A, y.F2B = "", 0, 0, 0
		}
	})
	add(func(y *RFCase) { y.Siblings = false })
	add(func(y *RFCase) { y.EOFWarning = false })
	add(func(y *RFCase) { y.NoOddINS = false })
	add(func(y *RFCase) { y.NoExtLen = false })
	add(func(y *RFCase) { y.ShortMode, y.ShortFixed = "", 0 })
	add(func(y *RFCase) { y.MaxResp = 0 })
	add(func(y *RFCase) { y.LeCap = 0 })
	add(func(y *RFCase) { y.Suite = "" })
	add(func(y *RFCase) { y.TagLen = 1 })
	add(func(y *RFCase) { y.LenForm = 0 })
	add(func(y *RFCase) { y.MaxLe = 256 })
	add(func(y *RFCase) { y.ContentLen = y.ContentLen / 2 })
	add(func(y *RFCase) { y.ContentLen = y.ContentLen - 1 })
	add(func(y *RFCase) { y.Seed = 1 })
	return out
}

func (ReadFileEngine) Run(prop string, ci any) *core.Outcome {
	c := ci.(RFCase)
	out := &core.Outcome{}
	term.InstallSeams()
	rng := core.NewRng(c.Seed)
	file := buildFile(rng, c)
	p := &chip.Personalisation{MF: map[uint16][]byte{}, LDS: map[uint16][]byte{}}
	fid := uint16(chip.FidCardAccess)
	if c.Suite != "" {
		fid = chip.FidDG(2)
	}
	if !c.Absent {
		if c.Suite != "" {
			p.LDS[fid] = file
		} else {
			p.MF[fid] = file
		}
	}
	if c.Siblings {
		for n := 1; n <= 16; n++ {
			f := chip.FidDG(n)
			if f == fid {
				continue
			}
			p.LDS[f] = append([]byte{0x60 + byte(n), 0x82, 0x02, 0x00}, bytes.Repeat([]byte{0xD0 + byte(n)}, 512)...)
		}
		p.LDS[chip.FidCOM] = append([]byte{0x60, 0x81, 0xC8}, bytes.Repeat([]byte{0xC0}, 200)...)
		p.LDS[chip.FidSOD] = append([]byte{0x77, 0x82, 0x02, 0x00}, bytes.Repeat([]byte{0x5D}, 512)...)
		p.MF[chip.FidCardSecurity] = append([]byte{0x30, 0x82, 0x02, 0x00}, bytes.Repeat([]byte{0xC5}, 512)...)
		p.MF[chip.FidDir] = append([]byte{0x61, 0x82, 0x02, 0x00}, bytes.Repeat([]byte{0xD1}, 512)...)
		if c.Suite != "" {
			p.MF[chip.FidCardAccess] = append([]byte{0x31, 0x82, 0x02, 0x00}, bytes.Repeat([]byte{0xCA}, 512)...)
		}
	}
	b := chip.DefaultBehaviour()
	b.MaxResp, b.ShortMode, b.ShortFixed, b.LeCap, b.ExtLen, b.EOFWarning = c.MaxResp, c.ShortMode, c.ShortFixed, c.LeCap, !c.NoExtLen, c.EOFWarning
	b.NoOddINS = c.NoOddINS
	ch := chip.New(p, b, core.NewRng(core.SubSeed(c.Seed, "chip")))
	faults := c.faults()
	link := term.NewLink(ch, faults, out)
	link.MaxExchanges = 5000
	nfc := iso7816.NewNfcSession(link)
	nfc.SetMaxLe(c.MaxLe)
	if c.Suite != "" {
		kenc, kmac := rng.Bytes(keyLen(c.Suite)), rng.Bytes(keyLen(c.Suite))
		if c.Suite == chip.TDES {
			kenc, kmac = chip.KDF(kenc, 1, chip.TDES), chip.KDF(kmac, 2, chip.TDES)
		}
		sm, err := iso7816.NewSecureMessaging(smAlg(c.Suite), kenc, kmac)
		if err != nil {
			out.Discarded = "harness: NewSecureMessaging: " + err.Error()
			return out
		}
		ssc := rng.Bytes(len(sm.SSC()))
		sm.SetSSC(ssc)
		nfc.SetSecureMessaging(sm)
		cs := chip.NewSM(c.Suite, kenc, kmac)
		copy(cs.SSC, ssc)
		ch.InstallSession(cs)
		ch.SelectLDS()
	}
	var data []byte
	var err error
	var pan any
	func() {
		defer func() { pan = recover() }()
		data, err = nfc.ReadFile(fid)
	}()
	out.Exchanges = link.N
	out.Fingerprint = link.Log.Fingerprint()
	total := len(file)
	class := "ok"
	sigBase := fmt.Sprintf("total=%d", total)
	if total > 32767 {
		sigBase = "total>32767"
	}
	if len(faults) > 0 {
		// C11 use: the link misbehaved; the only acceptable results are the chip's file, "not found" or an error
		kinds := ""
		for _, f := range faults {
			kinds += f.Kind + "+"
		}
		switch {
		case pan != nil:
			out.Violate("C11", "panic", "readfile/"+kinds, "ReadFile panicked under link faults %v: %v", faults, pan)
		case link.Overrun:
			out.Violate("C11", "no-termination", "readfile/"+kinds, "more than %d exchanges for one file under link faults %v", link.MaxExchanges, faults)
		case err == nil && data != nil && !bytes.Equal(data, file):
			// Under secure messaging every alteration is detectable. In the clear the terminal can only notice a
			// response that carries more data than the command asked for; anything else is beyond any terminal.
			detectable := c.Suite != ""
			onlyNonAltering := true
			for _, kind := range link.FaultAt {
				switch kind {
				case "resp_oversize", "resp_lost", "cmd_lost", "resp_status", "chip_power_cycle", "link_dead_from":
				default:
					onlyNonAltering = false // e.g. a garbled retry after the rejected oversize response: undetectable in the clear
				}
			}
			// every oversized response that fired must be one the terminal can notice (more data than Le asked for): a chip
			// that answered short plus a few surplus bytes within Le is indistinguishable from a genuine answer
			sawOversize, allNoticeable := false, true
			for k, kind := range link.FaultAt {
				if kind != "resp_oversize" {
					continue
				}
				sawOversize = true
				noticeable := false
				if k < len(link.Cmds) && k < len(link.Delivered) {
					if p, perr := chip.ParseCAPDU(link.Cmds[k]); perr == nil && p.INS == 0xB0 && p.HasLe && len(link.Delivered[k])-2 > p.Le {
						noticeable = true
					}
				}
				if !noticeable {
					allNoticeable = false
				}
			}
			if c.Suite == "" && onlyNonAltering && sawOversize && allNoticeable {
				detectable = true
			}
			if detectable {
				out.Violate("C11", "file-differs", "readfile/"+kinds, "ReadFile (suite %q, maxLe %d) returned %d bytes that differ from the chip's %d-byte file under link faults %v", c.Suite, c.MaxLe, len(data), len(file), faults)
			} else {
				out.Probe("clear_read_altered_undetectably")
			}
		}
		if len(link.FaultAt) == 0 {
			out.Discarded = "fault-did-not-fire"
			return out
		}
		oc := "error"
		if err == nil {
			oc = "ok"
		}
		out.Key = fmt.Sprintf("rf|%s|sm=%v|%s|le=%d", kinds, c.Suite != "", oc, c.MaxLe)
		return out
	}
	switch {
	case pan != nil:
		class = "panic"
		out.Violate("C13", "panic", sigBase, "ReadFile panicked: %v (case %+v)", pan, c)
	case link.Overrun:
		class = "overrun"
		out.Violate("C13", "no-termination", sigBase, "more than %d exchanges for one file", link.MaxExchanges)
	case err != nil:
		class = "error"
	case data == nil:
		class = "notfound"
		if !c.Absent {
			out.Violate("C13", "notfound-but-present", sigBase, "ReadFile returned (nil,nil)=not found for a %d-byte file the chip selected successfully", total)
		}
	default:
		if c.Absent {
			out.Violate("C13", "bytes-for-absent-file", sigBase, "ReadFile returned %d bytes for a file the chip reported as not found", len(data))
		} else if !bytes.Equal(data, file) {
			kind := "different bytes"
			if len(data) < len(file) && bytes.Equal(data, file[:len(data)]) {
				kind = "prefix"
			} else if len(data) == len(file) {
				for i := range data {
					if data[i] != file[i] {
						kind = fmt.Sprintf("same length, first difference at offset %d", i)
						break
					}
				}
			}
			out.Violate("C13", "wrong-bytes", sigBase, "ReadFile returned %d bytes, chip stores %d: %s", len(data), len(file), kind)
		}
	}
	// termination within the chunk limit: header read + <=1000 chunks + ladder retries
	if ch.Facts.ReadBinaryCmds > 1+1000+3 {
		out.Violate("C13", "chunk-limit", sigBase, "%d READ BINARY commands for one file", ch.Facts.ReadBinaryCmds)
	}
	if ch.Facts.PlainWhileSM > 0 {
		out.Violate("C10", "plain-while-sm", "readfile", "unprotected command while a session was installed")
	}
	// reach probes
	if class == "ok" && total > 4 {
		out.Probe("multi_chunk_ok")
	}
	ladder := false
	for _, e := range ch.Log {
		if e.Action == "read-binary le-above-cap" || e.Action == "reject-extended" || e.Action == "reject-malformed" {
			ladder = true
		}
	}
	if ladder {
		out.Probe("fallback_ladder_used")
		if class == "ok" {
			out.Probe("fallback_ladder_succeeded")
		}
	}
	if c.Suite != "" && ladder {
		for _, e := range ch.Log {
			if e.Action == "reject-extended" {
				out.Probe("naked_response_branch")
				break
			}
		}
	}
	if total > 32767+5 && class != "error" {
		out.Probe("offset_ge_32768_completed")
	}
	szClass := func(n int) string {
		switch {
		case n <= 4:
			return fmt.Sprintf("t%d", n)
		case n < 128:
			return "<128"
		case n < 256:
			return "<256"
		case n < 260:
			return "<260"
		case n < 32768:
			return "<32768"
		case n < 33300:
			return "<33300"
		}
		return ">=33300"
	}
	leClass := func(n int) string {
		switch {
		case n < 4:
			return fmt.Sprintf("le%d", n)
		case n <= 128:
			return "<=128"
		case n <= 192:
			return "<=192"
		case n <= 256:
			return "<=256"
		}
		return ">256"
	}
	pol := "plainpol"
	switch {
	case c.MaxResp > 0:
		pol = "maxresp"
	case c.ShortMode != "":
		pol = "short-" + c.ShortMode
	case c.LeCap > 0:
		pol = "lecap"
	}
	out.Key = fmt.Sprintf("%s|%s|sm=%s|%s|ext=%v|%s", szClass(total), leClass(c.MaxLe), c.Suite, pol, !c.NoExtLen, class)
	return out
}
