package engines

import (
	"bytes"
	"encoding/json"
	"fmt"
	"io"
	"math/big"
	"regexp"
	"strings"

	"github.com/gmrtd/gmrtd/activeauth"
	"github.com/gmrtd/gmrtd/bac"
	"github.com/gmrtd/gmrtd/chipauth"
	"github.com/gmrtd/gmrtd/document"
	"github.com/gmrtd/gmrtd/iso7816"
	"github.com/gmrtd/gmrtd/pace"
	"github.com/gmrtd/gmrtd/password"

	"verif/sim/chip"
	"verif/sim/core"
	"verif/sim/lds"
	"verif/sim/pki"
	"verif/sim/term"
	"verif/sim/world"
)

// proto-duel: the real protocol objects (pace.Pace, bac.BAC, chipauth.ChipAuth, activeauth.ActiveAuth)
// over a real NfcSession against the reference chip, fault-free and with an adversary that alters
// exactly one chip message / plays an impostor. Serves C04, C05, C06, C07.

type ProtoCase struct {
	Proto string          `json:"proto"` // pace | bac | ca | aa
	Spec  world.WorldSpec `json:"spec"`
	Mode  string          `json:"mode"`
	A     int             `json:"a,omitempty"`
	B     int             `json:"b,omitempty"`
}

type duel struct {
	w    *world.World
	chip *chip.Chip
	link *term.Link
	nfc  *iso7816.NfcSession
	doc  *document.Document
	out  *core.Outcome
}

func newProtoDuel(spec world.WorldSpec, out *core.Outcome) *duel {
	term.InstallSeams()
	d := &duel{out: out}
	d.w = world.Build(spec)
	d.chip = d.w.NewChip()
	d.link = term.NewLink(d.chip, nil, out)
	d.nfc = iso7816.NewNfcSession(d.link)
	if spec.MaxLe > 0 {
		d.nfc.SetMaxLe(spec.MaxLe)
	}
	d.doc = &document.Document{}
	return d
}

// installSession puts both sides into an authenticated session with fresh random keys.
func (d *duel) installSession(suite string, rng *core.Rng) error {
	sm, cs, err := newDuel(suite, sscMode{Mode: "random"}, rng)
	if err != nil {
		return err
	}
	d.nfc.SetSecureMessaging(sm)
	d.chip.InstallSession(cs)
	d.chip.SelectLDS()
	return nil
}

var smStrRe = regexp.MustCompile(`ksenc:([0-9a-f]*), ksmac:([0-9a-f]*), ssc:([0-9a-f]*)`)

// sameSession compares the terminal's session state (public String()) with the chip's.
func sameSession(t iso7816.SecureMessenger, c *chip.SM) (bool, string) {
	if t == nil || c == nil {
		return false, fmt.Sprintf("terminal session present=%v chip session present=%v", t != nil, c != nil)
	}
	m := smStrRe.FindStringSubmatch(t.String())
	if m == nil {
		return false, "cannot parse terminal session string " + t.String()
	}
	want := fmt.Sprintf("%x/%x/%x", c.KEnc, c.KMac, c.SSC)
	got := m[1] + "/" + m[2] + "/" + m[3]
	if got != want {
		return false, fmt.Sprintf("terminal (kenc/kmac/ssc) %s != chip %s", got, want)
	}
	return true, ""
}

// editGA replaces (or removes) the value of data object tag inside a 7C response.
func editGA(resp []byte, tag int, f func(v []byte) []byte, remove bool) ([]byte, bool) {
	if len(resp) < 4 || resp[len(resp)-2] != 0x90 {
		return resp, false
	}
	ts, err := chip.ParseTLVs(resp[:len(resp)-2])
	if err != nil || len(ts) != 1 || ts[0].Tag != 0x7C {
		return resp, false
	}
	in, err := chip.ParseTLVs(ts[0].Val)
	if err != nil {
		return resp, false
	}
	var body []byte
	hit := false
	for _, t := range in {
		if t.Tag == tag {
			hit = true
			if remove {
				continue
			}
			body = append(body, chip.EncTLV(tag, f(t.Val))...)
		} else {
			body = append(body, t.Raw...)
		}
	}
	if !hit {
		return resp, false
	}
	return append(chip.EncTLV(0x7C, body), 0x90, 0x00), true
}

type prefixReader struct {
	prefix []byte
	rest   io.Reader
}

func (p *prefixReader) Read(b []byte) (int, error) {
	if len(p.prefix) > 0 {
		n := copy(b, p.prefix)
		p.prefix = p.prefix[n:]
		if n < len(b) {
			m, _ := p.rest.Read(b[n:])
			return n + m, nil
		}
		return n, nil
	}
	return p.rest.Read(b)
}

type ProtoEngine struct{ P string }

func (e ProtoEngine) Name() string { return "proto-" + e.P }
func (e ProtoEngine) Decode(raw json.RawMessage) (any, error) {
	var c ProtoCase
	err := json.Unmarshal(raw, &c)
	return c, err
}

func (e ProtoEngine) Shrink(ci any) []any {
	c := ci.(ProtoCase)
	var out []any
	add := func(m func(y *ProtoCase)) {
		y := c
		y.Spec.PACE = append([]world.PaceSpec{}, c.Spec.PACE...)
		m(&y)
		a, _ := json.Marshal(y)
		b, _ := json.Marshal(c)
		if !bytes.Equal(a, b) {
			out = append(out, y)
		}
	}
	add(func(y *ProtoCase) { y.Spec.PaceJunk = 0 })
	add(func(y *ProtoCase) { y.Spec.B.GrindSharedZeros, y.Spec.B.GrindPubZeros = 0, 0 })
	add(func(y *ProtoCase) { y.Spec.Layout = "TD3" })
	add(func(y *ProtoCase) { y.Spec.Password = "mrz" })
	add(func(y *ProtoCase) {
		if len(y.Spec.PACE) > 1 {
			y.Spec.PACE = y.Spec.PACE[:1]
		}
	})
	add(func(y *ProtoCase) { y.A = 0 })
	return out
}

var paceTampers = []string{"wrong-password", "nonce-flip", "map-key-other-point", "map-key-reflect", "map-key-invalid", "map-key-infinity", "map-key-omit",
	"ka-key-other-point", "ka-key-reflect", "ka-reflect-with-token", "ka-key-invalid", "ka-key-omit", "token-flip", "token-omit", "token-truncated", "cam-data-flip", "cam-data-omit", "cam-data-reblock", "cam-data-negated", "cam-data-plus-one", "cam-data-double"}

var bacTampers = []string{"bitflip", "other-mrz-keys", "replay-other-run", "wrong-rnd-ifd-echo", "wrong-rnd-ic-echo", "swapped-echoes", "short-39", "long-41", "zero", "status-6300", "wrong-password", "reflect-command", "permuted-fields"}

var caImpostors = []string{"own-key", "no-switch", "plain-9000", "replay-transcript", "own-key-no-switch", "empty-mac-probe", "short-mac-probe"}

var aaTampers = []string{"digest-tail-wrong", "bitflip", "other-challenge", "other-key", "truncate", "append", "zero-r", "zero-s", "r-eq-n", "s-plus-n", "neg-s-malleable", "digest-m1-only", "unknown-trailer", "wrong-hash-trailer", "random", "empty", "plain-as-der", "der-trailing", "short-f", "first-attempt-error"}

func (e ProtoEngine) Gen(prop, tier string, seed uint64, yield func(c any) bool) {
	rng := core.NewRng(core.SubSeed(seed, "proto", e.P, tier))
	thorough := tier == "thorough"
	base := func() world.WorldSpec {
		s := world.WorldSpec{Seed: rng.U64(), Country: rng.Intn(7), CSCA: world.KeySpec{Kind: "ec", CurveID: 12}, CSCAScheme: world.SchemeSpec{Kind: "ecdsa", Hash: "SHA256"},
			DS: world.KeySpec{Kind: "ec", CurveID: 12}, DSScheme: world.SchemeSpec{Kind: "ecdsa", Hash: "SHA256"}, DGHash: "SHA256", SIDForm: "issuerSerial",
			Password: "mrz", DGs: []int{1}, B: chip.DefaultBehaviour(), MaxLe: 256}
		return s
	}
	switch e.P {
	case "pace":
		reps := 3
		if thorough {
			reps = 120
		}
		// every (parameter id) x (suite) x (GM, CAM) cell, genuine
		for r := 0; r < reps; r++ {
			for _, pid := range chip.AllParamIDs {
				for _, suite := range allSuites {
					for _, cam := range []bool{false, true} {
						if cam && suite == chip.TDES {
							continue
						}
						s := base()
						s.PACE = []world.PaceSpec{{Suite: suite, CAM: cam, ParamID: pid}}
						s.Password = core.Pick(rng, []string{"mrz", "mrzi", "dg1", "can"})
						s.Layout = core.Pick(rng, []string{"TD1", "TD2", "TD3"})
						s.PaceJunk = rng.Intn(4)
						if cam {
							s.CardSecExtraKeys = core.Pick(rng, []int{0, 1, 2})
							s.CardSecVariant = core.Pick(rng, []int{0, 0, 1, 3})
						}
						if rng.Chance(1, 3) {
							s.PACE = append(s.PACE, world.PaceSpec{Suite: chip.TDES, ParamID: core.Pick(rng, chip.AllParamIDs)})
							s.PACE = dedupPace(s.PACE)
						}
						switch r % 3 {
						case 1:
							s.B.GrindSharedZeros = 1
						case 2:
							s.B.GrindPubZeros = 1
						}
						if r%3 == 1 && r >= 3 && rng.Chance(1, 4) && (pid == 10 || pid == 12) {
							// two leading zero octets cost about 65 000 key pairs: only on the curves with fast arithmetic
							// (on the generic big-integer curves one such run takes minutes and tripped the silence watchdog
							// of a loaded machine in the thorough tier)
							s.B.GrindSharedZeros = 2
						}
						if !yield(ProtoCase{Proto: "pace", Spec: s, Mode: "genuine"}) {
							return
						}
					}
				}
			}
		}
		n := 900
		if thorough {
			n = 40000
		}
		for i := 0; i < n; i++ {
			s := base()
			cam := i%2 == 1
			suite := allSuites[(i/2)%4]
			if cam && suite == chip.TDES {
				suite = chip.AES128
			}
			s.PACE = []world.PaceSpec{{Suite: suite, CAM: cam, ParamID: chip.AllParamIDs[(i/8)%11]}}
			s.Password = core.Pick(rng, []string{"mrz", "mrzi", "can"})
			s.PaceJunk = rng.Intn(3)
			mode := paceTampers[(i/2)%len(paceTampers)]
			if strings.HasPrefix(mode, "cam-") && !cam {
				s.PACE[0].CAM = true
				if s.PACE[0].Suite == chip.TDES {
					s.PACE[0].Suite = chip.AES192
				}
			}
			if !yield(ProtoCase{Proto: "pace", Spec: s, Mode: mode, A: rng.Intn(1 << 16), B: rng.Intn(256)}) {
				return
			}
		}
	case "bac":
		n := 6000
		if prop != "C05" {
			n = 600
		}
		if thorough {
			n = 1200000
		}
		for i := 0; i < n; i++ {
			s := base()
			s.BAC = true
			s.Layout = []string{"TD1", "TD2", "TD3"}[i%3]
			s.Password = []string{"mrz", "mrzi", "dg1"}[(i/3)%3]
			mode := "genuine"
			if i%5 == 4 {
				mode = "genuine-ssc-wrap"
			}
			if !yield(ProtoCase{Proto: "bac", Spec: s, Mode: mode, A: rng.Intn(4)}) {
				return
			}
		}
		// exhaustive single-bit mutations of the genuine 40-byte cryptogram
		sweeps := 1
		if thorough {
			sweeps = 12
		}
		for r := 0; r < sweeps; r++ {
			s := base()
			s.BAC = true
			for bit := 0; bit < 320; bit++ {
				if !yield(ProtoCase{Proto: "bac", Spec: s, Mode: "bitflip", A: bit}) {
					return
				}
			}
		}
		m := 3000
		if prop != "C05" {
			m = 400
		}
		if thorough {
			m = 600000
		}
		for i := 0; i < m; i++ {
			s := base()
			s.BAC = true
			s.Layout = []string{"TD1", "TD2", "TD3"}[i%3]
			mode := bacTampers[1+i%(len(bacTampers)-1)]
			if !yield(ProtoCase{Proto: "bac", Spec: s, Mode: mode, A: rng.Intn(1 << 16), B: rng.Intn(256)}) {
				return
			}
		}
	case "ca":
		reps := 2
		if thorough {
			reps = 60
		}
		for r := 0; r < reps; r++ {
			for _, cid := range chip.AllParamIDs {
				for _, explicit := range []bool{false, true} {
					for arr := 0; arr < 5; arr++ {
						s := base()
						s.BAC = true
						ca := &world.CASpec{CurveID: cid, Explicit: explicit}
						suite := allSuites[(r+arr+cid)%4]
						switch arr {
						case 0: // info missing: suite inferred (MSE:Set KAT)
						case 1:
							ca.Suites = []string{suite}
						case 2:
							ca.Suites = []string{suite}
							id := genKeyID(rng)
							ca.KeyID = &id
						case 3:
							ca.Suites = []string{suite}
							id := genKeyID(rng)
							ca.KeyID = &id
							ca.TwoKeys = true
						case 4: // two suites advertised: the strongest is chosen
							ca.Suites = []string{chip.TDES, suite}
							if suite == chip.TDES {
								ca.Suites = []string{chip.TDES, chip.AES256}
							}
						}
						s.CA = ca
						mode := "genuine"
						if r%2 == 1 {
							mode = "genuine-grind"
						}
						if !yield(ProtoCase{Proto: "ca", Spec: s, Mode: mode, A: rng.Intn(4)}) {
							return
						}
					}
				}
			}
		}
		n := 500
		if thorough {
			n = 20000
		}
		for i := 0; i < n; i++ {
			s := base()
			s.BAC = true
			ca := &world.CASpec{CurveID: chip.AllParamIDs[i%11], Explicit: rng.Bool()}
			if i%3 != 0 {
				ca.Suites = []string{allSuites[(i/3)%4]}
			}
			s.CA = ca
			if !yield(ProtoCase{Proto: "ca", Spec: s, Mode: caImpostors[(i/2)%len(caImpostors)], A: rng.Intn(1 << 16)}) {
				return
			}
		}
	case "aa":
		reps := 2
		if thorough {
			reps = 80
		}
		for r := 0; r < reps; r++ {
			for _, bits := range []int{1024, 1280, 1536, 2048, 3072, 4096, 1027, 1030, 2045, 2047} {
				for _, h := range pki.Hashes {
					for _, m1 := range []string{"random", "zero", "ff", "leadzero"} {
						if r == 0 && m1 != "random" && h != "SHA256" {
							continue
						}
						s := base()
						s.BAC = true
						s.MaxLe = 65536
						s.AA = &world.AASpec{Kind: "rsa", Bits: bits, Hash: h, M1: m1}
						if !yield(ProtoCase{Proto: "aa", Spec: s, Mode: "genuine", A: r % 2}) {
							return
						}
					}
				}
			}
			for _, cid := range chip.AllParamIDs {
				for _, der := range []bool{false, true} {
					s := base()
					s.BAC = true
					s.AA = &world.AASpec{Kind: "ec", CurveID: cid, Explicit: r%2 == 1, DER: der}
					if !yield(ProtoCase{Proto: "aa", Spec: s, Mode: "genuine", A: r % 2}) {
						return
					}
				}
			}
		}
		n := 1500
		if thorough {
			n = 400000
		}
		for i := 0; i < n; i++ {
			s := base()
			s.BAC = true
			s.MaxLe = 65536
			if i%2 == 0 {
				s.AA = &world.AASpec{Kind: "rsa", Bits: core.Pick(rng, []int{1024, 1024, 1280, 1536, 2048, 1027, 1030, 2045, 2047}), Hash: core.Pick(rng, pki.Hashes), M1: "random"}
			} else {
				s.AA = &world.AASpec{Kind: "ec", CurveID: chip.AllParamIDs[(i/2)%11], DER: rng.Chance(1, 3)}
			}
			if !yield(ProtoCase{Proto: "aa", Spec: s, Mode: aaTampers[(i/2)%len(aaTampers)], A: rng.Intn(1 << 16), B: rng.Intn(256)}) {
				return
			}
		}
	}
}

func (e ProtoEngine) Run(prop string, ci any) *core.Outcome {
	c := ci.(ProtoCase)
	out := &core.Outcome{}
	defer term.RestoreRandom()
	switch c.Proto {
	case "pace":
		runPace(c, out)
	case "bac":
		runBac(c, out)
	case "ca":
		runCA(c, out)
	case "aa":
		runAA(c, out)
	}
	return out
}

func wrongPassword(w *world.World) *password.Password {
	if w.Spec.Password == "can" {
		other := "123456"
		if w.CAN == other {
			other = "654321"
		}
		return password.NewPasswordCan(other)
	}
	h := w.Holder
	d := []byte(h.DOE) // the date of expiry is always numeric (the date of birth may hold fillers)
	if d[5] == '9' {
		d[5] = '0'
	} else {
		d[5]++
	}
	h.DOE = string(d)
	p, err := password.NewPasswordMrzi(h.DocNo, h.DOB, h.DOE)
	if err != nil || p == nil {
		panic("harness: wrong-password construction failed: " + fmt.Sprint(err))
	}
	return p
}

func otherPointOn(cv int, p []byte, k int64) []byte { return otherPoint(cv, p, k) }

func invalidPoint(p []byte) []byte {
	o := bytes.Clone(p)
	o[len(o)-1] ^= 0x01 // y+-1 is (almost surely) off the curve
	return o
}

func runPace(c ProtoCase, out *core.Outcome) {
	d := newProtoDuel(c.Spec, out)
	w := d.w
	ca, err := document.NewCardAccess(w.MF[chip.FidCardAccess])
	if err != nil || ca == nil {
		out.Violate("C04", "cardaccess-unparseable", "constructor", "EF.CardAccess of a conforming chip rejected: %v", err)
		return
	}
	d.doc.Mf.CardAccess = ca
	pass, err := w.PasswordFor()
	if err != nil {
		out.Violate("C04", "password-rejected", c.Spec.Password+"/"+w.Holder.Layout, "password object could not be built from the well-formed MRZ %q: %v", w.Holder.MRZ(), err)
		return
	}
	sel := c.Spec.PACE[0] // highest preference: CAM > AES256 > ... by construction of the generator lists only GM 3DES extras
	for _, p := range c.Spec.PACE {
		if paceWeight(p) > paceWeight(sel) {
			sel = p
		}
	}
	step := 0 // GA steps seen (chip messages 1..4)
	var termMapKey, termKaKey, termToken []byte
	if c.Mode == "wrong-password" {
		pass = wrongPassword(w)
	}
	switch c.Mode {
	case "cam-data-negated":
		d.chip.Ov.CAMTweak = "negate"
	case "cam-data-plus-one":
		d.chip.Ov.CAMTweak = "plus-one"
	case "cam-data-double":
		d.chip.Ov.CAMTweak = "double"
	}
	tampered := false
	d.link.RespHook = func(k int, cmd, resp []byte) []byte {
		outer, perr := chip.ParseCAPDU(cmd)
		if perr != nil || outer.INS != 0x86 {
			return resp
		}
		step++
		if in, ok := unwrap7CData(outer.Data); ok {
			for _, t := range in {
				if t.Tag == 0x81 {
					termMapKey = bytes.Clone(t.Val)
				}
				if t.Tag == 0x83 {
					termKaKey = bytes.Clone(t.Val)
				}
				if t.Tag == 0x85 {
					termToken = bytes.Clone(t.Val)
				}
			}
		}
		edit := func(tag int, f func(v []byte) []byte, remove bool) []byte {
			r, ok := editGA(resp, tag, f, remove)
			if ok {
				tampered = true
			}
			return r
		}
		flip := func(v []byte) []byte {
			o := bytes.Clone(v)
			if len(o) > 0 {
				o[c.A%len(o)] ^= byte(1 << uint(c.B%8))
			}
			return o
		}
		switch {
		case step == 1 && c.Mode == "nonce-flip":
			return edit(0x80, flip, false)
		case step == 2 && c.Mode == "map-key-other-point":
			return edit(0x82, func(v []byte) []byte { return otherPointOn(sel.ParamID, v, int64(2+c.A%1000)) }, false)
		case step == 2 && c.Mode == "map-key-reflect":
			return edit(0x82, func(v []byte) []byte { return termMapKey }, false)
		case step == 2 && c.Mode == "map-key-invalid":
			return edit(0x82, invalidPoint, false)
		case step == 2 && c.Mode == "map-key-infinity":
			return edit(0x82, func(v []byte) []byte { return []byte{0x00} }, false)
		case step == 2 && c.Mode == "map-key-omit":
			return edit(0x82, nil, true)
		case step == 3 && c.Mode == "ka-key-other-point":
			return edit(0x84, func(v []byte) []byte { return otherPointOn(sel.ParamID, v, int64(2+c.A%1000)) }, false)
		case step == 3 && (c.Mode == "ka-key-reflect" || c.Mode == "ka-reflect-with-token"):
			return edit(0x84, func(v []byte) []byte { return termKaKey }, false)
		case step == 4 && c.Mode == "ka-reflect-with-token":
			// a counterpart without the password: it echoed the terminal's agreement key and now echoes the terminal's
			// token (T_IFD = MAC(K, PK_IC) = MAC(K, PK_IFD) = the token the terminal expects from the chip)
			tampered = true
			return append(chip.EncTLV(0x7C, chip.EncTLV(0x86, termToken)), 0x90, 0x00)
		case step == 3 && c.Mode == "ka-key-invalid":
			return edit(0x84, invalidPoint, false)
		case step == 3 && c.Mode == "ka-key-omit":
			return edit(0x84, nil, true)
		case step == 4 && c.Mode == "token-flip":
			return edit(0x86, flip, false)
		case step == 4 && c.Mode == "token-omit":
			return edit(0x86, nil, true)
		case step == 4 && c.Mode == "token-truncated":
			return edit(0x86, func(v []byte) []byte { return v[:len(v)-1] }, false)
		case step == 4 && (c.Mode == "cam-data-negated" || c.Mode == "cam-data-plus-one" || c.Mode == "cam-data-double"):
			// altered inside the encryption (the chip model itself encrypts another scalar, see Overrides.CAMTweak)
			if _, ok := editGA(resp, 0x8A, func(v []byte) []byte { return v }, false); ok {
				tampered = true
			}
			return resp
		case step == 4 && c.Mode == "cam-data-flip":
			return edit(0x8A, flip, false)
		case step == 4 && c.Mode == "cam-data-omit":
			return edit(0x8A, nil, true)
		case step == 4 && c.Mode == "cam-data-reblock":
			return edit(0x8A, func(v []byte) []byte { return append(bytes.Clone(v), v[:16]...) }, false)
		}
		return resp
	}
	term.SetTerminalRandom(core.NewRng(core.SubSeed(c.Spec.Seed, "terminal")))
	var res *document.PaceResult
	var cam *document.PaceCamResult
	var perr error
	var pan any
	func() {
		defer func() { pan = recover() }()
		res, cam, perr = pace.NewPace(d.nfc, d.doc, pass).DoPACE()
	}()
	out.Exchanges = d.link.N
	out.Fingerprint = d.link.Log.Fingerprint()
	cell := fmt.Sprintf("param=%d/%s/cam=%v", sel.ParamID, sel.Suite, sel.CAM)
	if pan != nil {
		out.Violate("C04", "panic", cell, "DoPACE panicked: %v", pan)
		out.Violate("C12", "panic-in-pace", c.Mode, "DoPACE panicked: %v", pan)
		return
	}
	success := res != nil && res.Success
	camOK := cam != nil && cam.Success
	if d.chip.Facts.SharedSecretsZeros > 0 {
		out.Probe("shared_secret_leading_zero")
	}
	if c.Spec.B.GrindPubZeros > 0 {
		out.Probe("public_coordinate_leading_zero")
	}
	if c.Spec.PaceJunk > 0 {
		out.Probe("unsupported_pace_infos_present")
	}
	if c.Mode == "genuine" {
		if !success {
			out.Violate("C04", "pace-interop", cell, "PACE with the right password against the conforming reference chip failed (password route %s, layout %s): %v", c.Spec.Password, w.Holder.Layout, perr)
			if sel.CAM {
				// the chip holds the CardSecurity key and proved it inside this run: the chip-authentication leg failed with it
				out.Violate("C06", "cam-key-holder-rejected", cell, "PACE-CAM against the key-holding chip failed (CardSecurity keys: %d extra, signer variant %d): %v", c.Spec.CardSecExtraKeys, c.Spec.CardSecVariant, perr)
			}
		} else {
			if ok, why := sameSession(d.nfc.SM(), d.chip.SMState()); !ok {
				out.Violate("C04", "session-state-differs", cell, "after PACE: %s", why)
			} else {
				// the next protected exchange must authenticate on both sides
				selOK, e := d.nfc.SelectAid(chip.LDS1AID)
				last := d.chip.Log[len(d.chip.Log)-1]
				if e != nil || !selOK || !last.ViaSM || last.SMError != "" || last.PlainSW != 0x9000 {
					out.Violate("C04", "first-protected-exchange", cell, "first protected exchange after PACE failed: err=%v chip=%s %s", e, last.Action, last.SMError)
				}
			}
			okSel := false
			for _, p := range c.Spec.PACE {
				if paceWeight(p) == paceWeight(sel) && p.ParamID == res.ParameterId {
					okSel = true // equally preferred infos: either is fine
				}
			}
			if !okSel {
				out.Violate("C04", "selection", cell, "PACE ran with parameter id %d, which is not a preferred advertised one (%d)", res.ParameterId, sel.ParamID)
			}
			if sel.CAM && !camOK {
				out.Violate("C04", "cam-not-successful", cell, "PACE-CAM against the key-holding chip not reported successful: %v", perr)
				out.Violate("C06", "cam-key-holder-rejected", cell, "PACE-CAM against the key-holding chip not reported successful: %v", perr)
			}
			if !sel.CAM && cam != nil {
				out.Violate("C04", "cam-result-without-cam", cell, "a PACE-CAM result was produced for a generic-mapping run")
			}
		}
	} else {
		if !tampered && c.Mode != "wrong-password" {
			out.Discarded = "tamper-not-applicable"
			return
		}
		out.Fault("pace_" + c.Mode)
		camOnly := strings.HasPrefix(c.Mode, "cam-data")
		if camOnly {
			if camOK {
				out.Violate("C04", "cam-accepted-altered-data", c.Mode+"/"+cell, "encrypted chip authentication data altered (%s) but PACE-CAM is reported successful", c.Mode)
				out.Violate("C06", "cam-impostor-accepted", c.Mode+"/"+cell, "encrypted chip authentication data altered (%s) but PACE-CAM is reported successful", c.Mode)
			}
		} else {
			if success {
				out.Violate("C04", "pace-accepted-altered", c.Mode+"/"+cell, "%s but PACE reports success", c.Mode)
			}
			if d.nfc.SM() != nil {
				out.Violate("C04", "session-installed-after-failure", c.Mode+"/"+cell, "%s: PACE failed closed=%v but a secure-messaging session is installed", c.Mode, !success)
			}
			if camOK {
				out.Violate("C04", "cam-after-failed-pace", c.Mode+"/"+cell, "%s: PACE-CAM reported successful", c.Mode)
			}
		}
	}
	grind := fmt.Sprintf("g%d%d", c.Spec.B.GrindSharedZeros, c.Spec.B.GrindPubZeros)
	out.Key = fmt.Sprintf("pace|%s|%s|pwd=%s|%s|junk=%v|%s|ok=%v", c.Mode, cell, c.Spec.Password, w.Holder.Layout, c.Spec.PaceJunk > 0, grind, success)
}

func paceWeight(p world.PaceSpec) int {
	w := map[string]int{chip.TDES: 0, chip.AES128: 1, chip.AES192: 2, chip.AES256: 3}[p.Suite]
	if p.CAM {
		w += 100
	}
	return w
}

func unwrap7CData(data []byte) ([]chip.TLV, bool) {
	ts, err := chip.ParseTLVs(data)
	if err != nil || len(ts) != 1 || ts[0].Tag != 0x7C {
		return nil, false
	}
	in, err := chip.ParseTLVs(ts[0].Val)
	return in, err == nil
}

// ------------------------------------------------------------------ BAC

func runBac(c ProtoCase, out *core.Outcome) {
	d := newProtoDuel(c.Spec, out)
	w := d.w
	pass, err := w.PasswordFor()
	if err != nil {
		out.Violate("C05", "password-rejected", c.Spec.Password+"/"+w.Holder.Layout, "password object could not be built from the well-formed MRZ %q: %v", w.Holder.MRZ(), err)
		return
	}
	if c.Mode == "wrong-password" {
		pass = wrongPassword(w)
	}
	trng := core.NewRng(core.SubSeed(c.Spec.Seed, "terminal"))
	var rdr io.Reader = trng
	if c.Mode == "genuine-ssc-wrap" {
		// SSC = RND.IC[4:8] || RND.IFD[4:8]: both low halves all ones minus a little
		d.chip.Ov.RndICC = append(trng.Bytes(4), 0xFF, 0xFF, 0xFF, 0xFF)
		rdr = &prefixReader{prefix: append(trng.Bytes(4), 0xFF, 0xFF, 0xFF, byte(0xFF-c.A)), rest: trng}
		out.Probe("ssc_about_to_wrap")
	}
	term.SetTerminalRandom(rdr)
	kenc, kmac := chip.BACKeys(w.Holder.MrzInfo())
	tampered := false
	// a genuine cryptogram of another run (replay material)
	var replay []byte
	if c.Mode == "replay-other-run" {
		o2 := &core.Outcome{}
		d2 := newProtoDuel(c.Spec, o2)
		term.SetTerminalRandom(core.NewRng(core.SubSeed(c.Spec.Seed, "terminal-other")))
		p2, _ := d2.w.PasswordFor()
		d2.chip.Rng = core.NewRng(core.SubSeed(c.Spec.Seed, "chip-other"))
		bac.NewBAC(d2.nfc, d2.doc, p2).DoBAC()
		for i, cmd := range d2.link.Cmds {
			if len(cmd) > 1 && cmd[1] == 0x82 && len(d2.link.Delivered[i]) == 42 {
				replay = d2.link.Delivered[i]
			}
		}
		term.SetTerminalRandom(rdr)
	}
	d.link.RespHook = func(k int, cmd, resp []byte) []byte {
		outer, perr := chip.ParseCAPDU(cmd)
		if perr != nil || outer.INS != 0x82 || len(resp) != 42 {
			if perr == nil && outer.INS == 0x82 && c.Mode == "status-6300" {
				tampered = true
				return []byte{0x63, 0x00}
			}
			return resp
		}
		g := bytes.Clone(resp)
		mk := func(plain []byte, ke, km []byte) []byte {
			e := chip.CbcEnc3DES(ke, plain)
			return append(append(e, chip.RetailMAC(km, chip.Pad2(e, 8))...), 0x90, 0x00)
		}
		// what an adversary who knows the MRZ keys can read from the command
		s, _ := chip.CbcDec3DES(kenc, outer.Data[:32])
		rndIFD, rndIC, _ := s[0:8], s[8:16], s[16:32]
		kic := bytes.Repeat([]byte{0x5A}, 16)
		tampered = true
		switch c.Mode {
		case "bitflip":
			g[c.A/8] ^= 1 << uint(c.A%8)
			return g
		case "other-mrz-keys":
			ke2, km2 := chip.BACKeys("L898902C<3690806" + "1" + "9406236")
			return mk(append(append(bytes.Clone(rndIC), rndIFD...), kic...), ke2, km2)
		case "replay-other-run":
			if replay == nil {
				tampered = false
				return resp
			}
			return replay
		case "wrong-rnd-ifd-echo":
			bad := bytes.Clone(rndIFD)
			bad[c.A%8] ^= byte(1 << uint(c.B%8))
			return mk(append(append(bytes.Clone(rndIC), bad...), kic...), kenc, kmac)
		case "wrong-rnd-ic-echo":
			bad := bytes.Clone(rndIC)
			bad[c.A%8] ^= byte(1 << uint(c.B%8))
			return mk(append(append(bad, rndIFD...), kic...), kenc, kmac)
		case "swapped-echoes":
			if bytes.Equal(rndIC, rndIFD) {
				tampered = false
				return resp
			}
			return mk(append(append(bytes.Clone(rndIFD), rndIC...), kic...), kenc, kmac)
		case "reflect-command":
			// a chip without any key material echoes the terminal's own cryptogram E.IFD || M.IFD
			return append(bytes.Clone(outer.Data[:40]), 0x90, 0x00)
		case "permuted-fields":
			// an adversary knowing the keys: correct MAC, the three fields in one of the five wrong orders / K.IFD reflected as K.IC
			kifd := s[16:32]
			perms := [][]byte{
				append(append(bytes.Clone(rndIFD), rndIC...), kifd...), // = the terminal's own plaintext
				append(append(bytes.Clone(rndIC), rndIC...), kic...),
				append(append(bytes.Clone(rndIFD), rndIFD...), kic...),
				append(append(bytes.Clone(kic[:8]), rndIFD...), append(bytes.Clone(rndIC), kic[8:]...)...),
				append(append(bytes.Clone(kic), rndIC...), rndIFD...),
			}
			pl := perms[c.A%len(perms)]
			if bytes.Equal(pl[:16], append(bytes.Clone(rndIC), rndIFD...)) {
				tampered = false
				return resp
			}
			return mk(pl, kenc, kmac)
		case "short-39":
			return append(g[:39], 0x90, 0x00)
		case "long-41":
			return append(append(g[:40], 0x00), 0x90, 0x00)
		case "zero":
			return append(make([]byte, 40), 0x90, 0x00)
		case "status-6300":
			return []byte{0x63, 0x00}
		}
		tampered = false
		return resp
	}
	var res *document.BacResult
	var berr error
	var pan any
	func() {
		defer func() { pan = recover() }()
		res, berr = bac.NewBAC(d.nfc, d.doc, pass).DoBAC()
	}()
	out.Exchanges = d.link.N
	out.Fingerprint = d.link.Log.Fingerprint()
	cell := fmt.Sprintf("%s/%s", w.Holder.Layout, c.Spec.Password)
	if pan != nil {
		out.Violate("C05", "panic", c.Mode, "DoBAC panicked: %v", pan)
		out.Violate("C12", "panic-in-bac", c.Mode, "DoBAC panicked: %v", pan)
		return
	}
	success := res != nil && res.Success
	if strings.HasPrefix(c.Mode, "genuine") {
		if len(w.Holder.DocNo) > 9 {
			out.Probe("extended_document_number")
		}
		if strings.Contains(w.Holder.DocNo, "<") {
			out.Probe("document_number_with_inner_filler")
		}
		if len(w.Holder.DocNo) < 9 {
			out.Probe("document_number_with_fillers")
		}
		if !success {
			out.Violate("C05", "bac-interop", cell, "BAC against the conforming chip personalised with the same MRZ failed (doc no %q): %v", w.Holder.DocNo, berr)
		} else if ok, why := sameSession(d.nfc.SM(), d.chip.SMState()); !ok {
			out.Violate("C05", "session-state-differs", cell, "after BAC: %s", why)
		} else {
			// several protected exchanges (crosses the counter wrap in the ssc-wrap mode)
			for i := 0; i < 3; i++ {
				selOK, e := d.nfc.SelectAid(chip.LDS1AID)
				last := d.chip.Log[len(d.chip.Log)-1]
				if e != nil || !selOK || !last.ViaSM || last.SMError != "" {
					out.Violate("C05", "first-protected-exchange", cell, "protected exchange %d after BAC failed: err=%v chip=%s %s", i, e, last.Action, last.SMError)
					break
				}
			}
			if ok, why := sameSession(d.nfc.SM(), d.chip.SMState()); !ok {
				out.Violate("C05", "session-state-differs", cell+"/after-traffic", "after protected traffic: %s", why)
			}
		}
	} else {
		if !tampered && c.Mode != "wrong-password" {
			out.Discarded = "tamper-not-applicable"
			return
		}
		out.Fault("bac_" + c.Mode)
		if success {
			out.Violate("C05", "bac-accepted-hostile-response", c.Mode, "hostile EXTERNAL AUTHENTICATE answer (%s, a=%d) but BAC reports success", c.Mode, c.A)
		}
		if d.nfc.SM() != nil {
			out.Violate("C05", "session-installed-after-failure", c.Mode, "%s: a secure-messaging session is installed although BAC did not succeed", c.Mode)
		}
	}
	a := 0
	if c.Mode == "bitflip" {
		a = c.A
	}
	out.Key = fmt.Sprintf("bac|%s|%d|%s|docno=%d|ok=%v", c.Mode, a, cell, len(w.Holder.DocNo), success)
}

// ------------------------------------------------------------------ CA

func buildDG14Doc(d *duel) error {
	dg14, err := document.NewDG14(d.w.LDS[chip.FidDG(14)])
	if err != nil {
		return err
	}
	d.doc.Mf.Lds1.Dg14 = dg14
	return nil
}

func runCA(c ProtoCase, out *core.Outcome) {
	d := newProtoDuel(c.Spec, out)
	w := d.w
	if err := buildDG14Doc(d); err != nil || d.doc.Mf.Lds1.Dg14 == nil {
		out.Violate("C06", "dg14-unparseable", caKey(c.Spec), "DG14 of a conforming chip rejected: %v", err)
		return
	}
	rng := core.NewRng(core.SubSeed(c.Spec.Seed, "duel"))
	oldSuite := allSuites[c.A%4]
	if err := d.installSession(oldSuite, rng); err != nil {
		out.Discarded = "harness: " + err.Error()
		return
	}
	term.SetTerminalRandom(core.NewRng(core.SubSeed(c.Spec.Seed, "terminal")))
	// impostor set-up
	switch c.Mode {
	case "own-key", "own-key-no-switch":
		var keys []chip.CAKey
		for _, k := range w.Pers.CAKeys {
			n := k.Curve.Params().N
			dd := new(big.Int).SetBytes(rng.Bytes((n.BitLen() + 7) / 8))
			dd.Mod(dd, n)
			dd.Add(dd, big.NewInt(1))
			keys = append(keys, chip.NewCAKey(k.Curve, dd, k.KeyID))
		}
		d.chip.P.CAKeys = keys // DG14 (as given to the terminal) stays genuine
		if c.Mode == "own-key-no-switch" {
			d.chip.CANoSwitch = true
		}
	case "no-switch":
		d.chip.CANoSwitch = true
	case "plain-9000":
		d.link.CmdHook = func(k int, cmd []byte) ([]byte, bool) { return []byte{0x90, 0x00}, true }
	case "empty-mac-probe", "short-mac-probe":
		// the impostor lets the key agreement commands through to a chip with its own key pair, then answers the
		// verification SELECT (first command under the new keys) with a status object and an empty / short MAC object
		var keys []chip.CAKey
		for _, k := range w.Pers.CAKeys {
			n := k.Curve.Params().N
			dd := new(big.Int).SetBytes(rng.Bytes((n.BitLen() + 7) / 8))
			dd.Mod(dd, n)
			dd.Add(dd, big.NewInt(1))
			keys = append(keys, chip.NewCAKey(k.Curve, dd, k.KeyID))
		}
		d.chip.P.CAKeys = keys
		mac := []byte{}
		if c.Mode == "short-mac-probe" {
			mac = rng.Bytes(1 + c.A%3)
		}
		d.link.CmdHook = func(k int, cmd []byte) ([]byte, bool) {
			if len(cmd) > 1 && cmd[1] == 0xA4 {
				return append(append(chip.EncTLV(0x99, []byte{0x90, 0x00}), chip.EncTLV(0x8E, mac)...), 0x90, 0x00), true
			}
			return nil, false
		}
	case "replay-transcript":
		// record a genuine run against another terminal ephemeral, then replay its responses
		o2 := &core.Outcome{}
		d2 := newProtoDuel(c.Spec, o2)
		buildDG14Doc(d2)
		d2.installSession(oldSuite, core.NewRng(core.SubSeed(c.Spec.Seed, "duel")))
		term.SetTerminalRandom(core.NewRng(core.SubSeed(c.Spec.Seed, "terminal-other")))
		chipauth.NewChipAuth(d2.nfc, d2.doc).DoChipAuth()
		rec := d2.link.Delivered
		term.SetTerminalRandom(core.NewRng(core.SubSeed(c.Spec.Seed, "terminal")))
		d.link.CmdHook = func(k int, cmd []byte) ([]byte, bool) {
			if k < len(rec) {
				return rec[k], true
			}
			return []byte{0x6F, 0x00}, true
		}
	}
	if c.Mode == "genuine-grind" {
		// the chip cannot grind its static key; the terminal ephemeral is ground instead by trying seeds
		for t := 0; t < 4000; t++ {
			tr := core.NewRng(core.SubSeed(c.Spec.Seed, "terminal-grind", t))
			probe := core.NewRng(core.SubSeed(c.Spec.Seed, "terminal-grind", t))
			k := w.Pers.CAKeys[len(w.Pers.CAKeys)-1]
			n := k.Curve.Params().N
			byteLen := (n.BitLen() + 7) / 8
			priv := probe.Bytes(byteLen)
			// mirror crypto/elliptic.GenerateKey's masking to predict the scalar
			mask := []byte{0xff, 0x1, 0x3, 0x7, 0xf, 0x1f, 0x3f, 0x7f}
			priv[0] &= mask[n.BitLen()%8]
			priv[1] ^= 0x42
			if new(big.Int).SetBytes(priv).Cmp(n) >= 0 {
				continue
			}
			x, _ := k.Curve.ScalarMult(k.X, k.Y, priv)
			if chip.FE2OS(k.Curve, x)[0] == 0 {
				term.SetTerminalRandom(tr)
				out.Probe("ground_terminal_ephemeral")
				break
			}
		}
	}
	var res *document.ChipAuthResult
	var cerr error
	var pan any
	func() {
		defer func() { pan = recover() }()
		res, cerr = chipauth.NewChipAuth(d.nfc, d.doc).DoChipAuth()
	}()
	out.Exchanges = d.link.N
	out.Fingerprint = d.link.Log.Fingerprint()
	cell := caKey(c.Spec)
	if pan != nil {
		out.Violate("C06", "panic", c.Mode, "DoChipAuth panicked: %v", pan)
		out.Violate("C12", "panic-in-chipauth", c.Mode, "DoChipAuth panicked: %v", pan)
		return
	}
	success := res != nil && res.Success
	if d.chip.Facts.SharedSecretsZeros > 0 {
		out.Probe("shared_secret_leading_zero")
	}
	if strings.HasPrefix(c.Mode, "genuine") {
		if len(c.Spec.CA.Suites) == 0 {
			out.Probe("suite_inferred_set_kat")
		}
		if !success {
			out.Violate("C06", "ca-interop", cell, "Chip Authentication against the key-holding conforming chip failed: %v", cerr)
		} else {
			if !d.chip.Facts.CASwitched || !d.chip.Facts.CAConfirmed {
				out.Violate("C06", "success-without-proof", cell, "CA reported successful but the chip did not authenticate a command under new keys")
			}
			if ok, why := sameSession(d.nfc.SM(), d.chip.SMState()); !ok {
				out.Violate("C06", "session-state-differs", cell, "after CA: %s", why)
			}
			if ssc := d.chip.SMState(); ssc != nil {
				want := make([]byte, len(ssc.SSC))
				want[len(want)-1] = 2
				if !bytes.Equal(ssc.SSC, want) {
					out.Violate("C06", "counter-not-restarted", cell, "after CA and one probe the counter is %x, expected %x", ssc.SSC, want)
				}
			}
			// the expected suite: the strongest advertised one (or 3DES when inferred)
			wantSuite := chip.TDES
			for _, s := range c.Spec.CA.Suites {
				if suiteRank(s) > suiteRank(wantSuite) || wantSuite == chip.TDES {
					if suiteRank(s) >= suiteRank(wantSuite) {
						wantSuite = s
					}
				}
			}
			if cs := d.chip.SMState(); cs != nil && cs.Suite != wantSuite {
				out.Violate("C06", "suite-selection", cell, "CA ran with suite %s, strongest advertised is %s", cs.Suite, wantSuite)
			}
			// all later traffic continues under the new keys
			data, e := d.nfc.ReadFile(chip.FidDG(1))
			if e != nil || !bytes.Equal(data, w.LDS[chip.FidDG(1)]) {
				out.Violate("C06", "traffic-after-ca", cell, "reading DG1 under the new keys failed: %v", e)
			}
			if d.chip.Facts.PlainWhileSM > 0 || d.chip.Facts.SMErrors > 0 {
				out.Violate("C06", "traffic-after-ca", cell+"/sm", "the chip saw %d plain commands / %d SM errors", d.chip.Facts.PlainWhileSM, d.chip.Facts.SMErrors)
			}
		}
	} else {
		out.Fault("ca_impostor_" + c.Mode)
		if success {
			out.Violate("C06", "impostor-accepted", c.Mode+"/"+cell, "a chip without the certified private key (%s) is reported as successfully chip-authenticated", c.Mode)
		}
	}
	out.Key = fmt.Sprintf("ca|%s|%s|old=%s|ok=%v", c.Mode, cell, oldSuite, success)
}

// ------------------------------------------------------------------ AA

func runAA(c ProtoCase, out *core.Outcome) {
	d := newProtoDuel(c.Spec, out)
	w := d.w
	dg15, err := document.NewDG15(w.LDS[chip.FidDG(15)])
	if err != nil || dg15 == nil {
		out.Violate("C07", "dg15-unparseable", aaKey(c.Spec), "DG15 of a conforming chip rejected: %v", err)
		return
	}
	d.doc.Mf.Lds1.Dg15 = dg15
	rng := core.NewRng(core.SubSeed(c.Spec.Seed, "duel"))
	if err := d.installSession(allSuites[c.A%4], rng); err != nil {
		out.Discarded = "harness: " + err.Error()
		return
	}
	term.SetTerminalRandom(core.NewRng(core.SubSeed(c.Spec.Seed, "terminal")))
	key := w.AAKey
	isRSA := key.N != nil
	oddRSA := isRSA && key.N.BitLen()%8 != 0
	var supplied []byte
	if c.A%2 == 1 || c.Mode != "genuine" {
		supplied = rng.Bytes(8)
	}
	var delivered []byte
	var qx, qy *big.Int
	if !isRSA {
		qx, qy = key.Curve.ScalarBaseMult(key.ECD.Bytes())
	}
	mrng := core.NewRng(core.SubSeed(c.Spec.Seed, "aa-adversary"))
	if c.Mode == "first-attempt-error" {
		d.chip.AAFailFirst = 1 + c.B%2
		d.chip.AAFailSW = []uint16{0x6F00, 0x6A88, 0x6700, 0x6985, 0x6300}[c.A%5]
	}
	d.chip.AAMutate = func(sig, rnd []byte) []byte {
		o := bytes.Clone(sig)
		defer func() { delivered = bytes.Clone(o) }()
		switch c.Mode {
		case "genuine":
		case "bitflip":
			o[c.A%len(o)] ^= byte(1 << uint(c.B%8))
		case "other-challenge":
			other := bytes.Clone(rnd)
			other[c.A%8] ^= byte(1 | c.B)
			if isRSA {
				o, _ = chip.AASignRSA(key, other, mrng)
			} else {
				o = signEC(key, chip.Hash(ecHash(key), other), mrng)
			}
		case "other-key":
			k2 := *key
			if isRSA {
				for _, cand := range pki.RSAByBits(key.N.BitLen()) {
					if cand.N.Cmp(key.N) != 0 {
						k2.N, k2.D = cand.N, cand.D
					}
				}
				if k2.N.Cmp(key.N) == 0 {
					alt := pki.RSAByBits(2048)[0]
					k2.N, k2.D = alt.N, alt.D
				}
				o, _ = chip.AASignRSA(&k2, rnd, mrng)
			} else {
				k2.ECD = new(big.Int).Add(key.ECD, big.NewInt(1))
				o = signEC(&k2, chip.Hash(ecHash(key), rnd), mrng)
			}
		case "truncate":
			o = o[:len(o)-1-c.A%3]
		case "append":
			o = append(o, mrng.Bytes(1+c.A%4)...)
		case "zero-r", "zero-s", "r-eq-n", "s-plus-n", "neg-s-malleable", "plain-as-der", "der-trailing":
			if isRSA {
				o[0] ^= 0x01
				break
			}
			r, s := splitSig(o, key.DER)
			n := key.Curve.Params().N
			switch c.Mode {
			case "zero-r":
				r = big.NewInt(0)
			case "zero-s":
				s = big.NewInt(0)
			case "r-eq-n":
				r = new(big.Int).Set(n)
			case "s-plus-n":
				s = new(big.Int).Add(s, n)
			case "neg-s-malleable":
				s = new(big.Int).Sub(n, s) // a valid signature again (ECDSA malleability)
			}
			l := (n.BitLen() + 7) / 8
			if c.Mode == "s-plus-n" {
				l++
			}
			if c.Mode == "plain-as-der" || c.Mode == "der-trailing" {
				o = chip.EncTLV(0x30, append(derInt(r), derInt(s)...))
				if c.Mode == "der-trailing" {
					o = append(o, 0x00, 0x00, 0x00)
				}
			} else if key.DER {
				o = chip.EncTLV(0x30, append(derInt(r), derInt(s)...))
			} else {
				o = make([]byte, 2*l)
				r.FillBytes(o[:l])
				s.FillBytes(o[l:])
			}
		case "digest-m1-only", "unknown-trailer", "wrong-hash-trailer", "digest-tail-wrong":
			if !isRSA {
				o = signEC(key, chip.Hash(ecHash(key), rnd[:7]), mrng)
				break
			}
			o = forgeRSA(key, rnd, c.Mode, mrng)
		case "short-f":
			// a key-holding signer whose recoverable message is far shorter than the modulus: header, a body around
			// the digest length (or empty), one of the five trailers or none
			if !isRSA {
				o = o[:c.A%(len(o)+1)]
				break
			}
			o = CraftRSAF(key, c.A, c.B)
		case "random":
			o = mrng.Bytes(len(o))
		case "empty":
			o = nil
		}
		return o
	}
	aa := activeauth.NewActiveAuth(d.nfc, d.doc)
	var pan any
	var res *document.ActiveAuthResult
	var aerr error
	func() {
		defer func() { pan = recover() }()
		if supplied != nil {
			if aa, aerr = aa.WithChallenge(supplied); aerr != nil {
				return
			}
		}
		res, aerr = aa.DoActiveAuth()
	}()
	out.Exchanges = d.link.N
	out.Fingerprint = d.link.Log.Fingerprint()
	cell := aaKey(c.Spec)
	if pan != nil {
		out.Violate("C07", "panic", c.Mode+"/"+cell, "DoActiveAuth panicked: %v", pan)
		out.Violate("C12", "panic-in-activeauth", c.Mode, "DoActiveAuth panicked: %v", pan)
		return
	}
	success := res != nil && res.Success
	var sent []byte
	if len(d.chip.Facts.AAChallenges) > 0 {
		sent = d.chip.Facts.AAChallenges[len(d.chip.Facts.AAChallenges)-1]
	}
	if supplied != nil && sent != nil && !bytes.Equal(sent, supplied) {
		out.Violate("C07", "challenge-not-transmitted", cell, "caller-supplied challenge %x but the chip received %x", supplied, sent)
	}
	if res != nil && res.Evidence != nil && sent != nil && !bytes.Equal(res.Evidence.Nonce, sent) {
		out.Violate("C07", "challenge-not-recorded", cell, "the chip received challenge %x but the evidence records %x", sent, res.Evidence.Nonce)
	}
	if res != nil && res.Evidence != nil && delivered != nil && !bytes.Equal(res.Evidence.Signature, delivered) {
		out.Violate("C07", "signature-not-recorded", cell, "evidence signature differs from the response")
	}
	// reference verdict: is the delivered byte string a valid signature by the DG15 key over exactly the challenge sent?
	valid := false
	if sent != nil && delivered != nil {
		if isRSA {
			valid = chip.AAVerifyRSA(key.N, 65537, delivered, sent)
		} else {
			valid = chip.AAVerifyECDSA(key.Curve, qx, qy, delivered, sent)
		}
	}
	if c.Mode == "genuine" {
		if oddRSA {
			out.Probe("rsa_modulus_not_multiple_of_8")
		}
		if !success {
			out.Violate("C07", "genuine-rejected", cell, "genuine AA response rejected (reference verifier says valid=%v): %v", valid, aerr)
		}
	} else {
		out.Fault("aa_" + c.Mode)
	}
	if success && !valid {
		out.Violate("C07", "invalid-signature-accepted", c.Mode+"/"+cell, "AA accepted a response that is not a valid signature by the DG15 key over the challenge %x (mode %s): %x", sent, c.Mode, delivered)
	}
	if success && valid && c.Mode != "genuine" {
		out.Probe("adversarial_but_valid_accepted")
	}
	out.Key = fmt.Sprintf("aa|%s|%s|supplied=%v|ok=%v|valid=%v", c.Mode, cell, supplied != nil, success, valid)
}

func ecHash(k *chip.AAKey) string {
	switch nb := k.Curve.Params().N.BitLen(); {
	case nb >= 512:
		return "SHA512"
	case nb >= 384:
		return "SHA384"
	case nb >= 256:
		return "SHA256"
	}
	return "SHA224"
}

func derInt(v *big.Int) []byte {
	b := v.Bytes()
	if len(b) == 0 {
		b = []byte{0}
	}
	if b[0]&0x80 != 0 {
		b = append([]byte{0}, b...)
	}
	return chip.EncTLV(0x02, b)
}

func signEC(k *chip.AAKey, digest []byte, rng *core.Rng) []byte {
	r, s := chip.ECDSASign(k.Curve, k.ECD, digest, rng)
	if k.DER {
		return chip.EncTLV(0x30, append(derInt(r), derInt(s)...))
	}
	l := (k.Curve.Params().N.BitLen() + 7) / 8
	o := make([]byte, 2*l)
	r.FillBytes(o[:l])
	s.FillBytes(o[l:])
	return o
}

func splitSig(sig []byte, der bool) (r, s *big.Int) {
	if der {
		ts, err := chip.ParseTLVs(sig)
		if err == nil && len(ts) == 1 {
			in, err := chip.ParseTLVs(ts[0].Val)
			if err == nil && len(in) == 2 {
				return new(big.Int).SetBytes(in[0].Val), new(big.Int).SetBytes(in[1].Val)
			}
		}
		return big.NewInt(1), big.NewInt(1)
	}
	h := len(sig) / 2
	return new(big.Int).SetBytes(sig[:h]), new(big.Int).SetBytes(sig[h:])
}

// forgeRSA: a key-holding but misbehaving signer (tests the digest / trailer checks, not the RSA primitive).
func forgeRSA(k *chip.AAKey, rnd []byte, mode string, rng *core.Rng) []byte {
	klen := (k.N.BitLen() + 7) / 8
	hash := k.Hash
	tr := map[string][]byte{"SHA1": {0xBC}, "SHA224": {0x38, 0xCC}, "SHA256": {0x34, 0xCC}, "SHA384": {0x36, 0xCC}, "SHA512": {0x35, 0xCC}}[hash]
	hl := len(chip.Hash(hash, nil))
	flen := k.N.BitLen() / 8 // see chip.AASignRSA
	m1 := rng.Bytes(flen - 1 - hl - len(tr))
	var dg []byte
	switch mode {
	case "digest-m1-only":
		dg = chip.Hash(hash, m1)
	case "digest-tail-wrong":
		// a key-holding signer whose digest agrees with H(M1||RND.IFD) only in its leading half
		dg = chip.Hash(hash, append(bytes.Clone(m1), rnd...))
		for i := len(dg) / 2; i < len(dg); i++ {
			dg[i] ^= byte(0x5A + i)
		}
	case "unknown-trailer":
		dg = chip.Hash(hash, append(bytes.Clone(m1), rnd...))
		if len(tr) == 1 {
			tr = []byte{0xBD}
		} else {
			tr = []byte{0x31, 0xCC}
		}
	case "wrong-hash-trailer":
		// digest computed with one hash, trailer announces another of the same length class where possible
		dg = chip.Hash(hash, append(bytes.Clone(m1), rnd...))
		alt := map[string][]byte{"SHA1": {0x34, 0xCC}, "SHA224": {0xBC}, "SHA256": {0x36, 0xCC}, "SHA384": {0x35, 0xCC}, "SHA512": {0x34, 0xCC}}[hash]
		// keep total length: adjust M1
		if diff := len(alt) - len(tr); diff >= 0 {
			m1 = m1[:len(m1)-diff]
		} else {
			m1 = append(m1, rng.Bytes(-diff)...)
		}
		dg = chip.Hash(hash, append(bytes.Clone(m1), rnd...))
		tr = alt
	}
	f := append(append(append([]byte{0x6A}, m1...), dg...), tr...)
	for len(f) < flen {
		f = append(f[:1], append([]byte{0xBB}, f[1:]...)...)
	}
	s := new(big.Int).Exp(new(big.Int).SetBytes(f[:flen]), k.D, k.N)
	o := make([]byte, klen)
	s.FillBytes(o)
	return o
}

var _ = lds.CheckDigit

// CraftRSAF returns sig = F^d mod n for a short, hand-built recoverable message F = header || body || trailer
// (a selects the trailer and header, b the body length relative to the digest length of that trailer).
func CraftRSAF(k *chip.AAKey, a, b int) []byte {
	trailers := []struct {
		tr []byte
		hl int
	}{{[]byte{0xBC}, 20}, {[]byte{0x38, 0xCC}, 28}, {[]byte{0x34, 0xCC}, 32}, {[]byte{0x36, 0xCC}, 48}, {[]byte{0x35, 0xCC}, 64}, {[]byte{0xCC}, 0}, {nil, 0}, {[]byte{0x33, 0xCC}, 20}}
	t := trailers[a%len(trailers)]
	hdr := []byte{0x6A}
	switch (a / len(trailers)) % 4 {
	case 1:
		hdr = []byte{0x4A}
	case 2:
		hdr = nil
	}
	deltas := []int{-1, 0, -2, 1, -t.hl, -t.hl + 1, 2, 8}
	bl := t.hl + deltas[b%len(deltas)]
	if bl < 0 {
		bl = 0
	}
	f := append(append(bytes.Clone(hdr), bytes.Repeat([]byte{0x5C}, bl)...), t.tr...)
	klen := (k.N.BitLen() + 7) / 8
	if len(f) == 0 {
		f = []byte{0}
	}
	if len(f) >= klen {
		f = f[:klen-1]
	}
	sgn := new(big.Int).Exp(new(big.Int).SetBytes(f), k.D, k.N)
	o := make([]byte, klen)
	sgn.FillBytes(o)
	return o
}

// genKeyID: key identifiers of every width (one octet, 128..255 where the INTEGER needs a sign octet, two and three octets).
func genKeyID(rng *core.Rng) int64 {
	switch rng.Intn(5) {
	case 0:
		return int64(rng.Range(0, 127))
	case 1:
		return int64(rng.Range(128, 255))
	case 2:
		return int64(rng.Range(256, 65535))
	case 3:
		return int64(core.Pick(rng, []int{256, 257, 300, 32768, 65536, 70000}))
	}
	return int64(rng.Range(1, 200))
}
