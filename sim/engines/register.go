// Package engines holds the simulation engines (one per family of properties) and binds
// them to the property checks.
package engines

import "verif/sim/core"

var realTerminal = []string{"gmrtd iso7816.NfcSession", "gmrtd iso7816.SecureMessaging", "gmrtd tlv", "gmrtd cryptoutils"}

func RegisterAll() {
	core.Register(&core.Check{
		Property: "C13",
		Level:    "exploration",
		Rule: "seeded runs of the real NfcSession.ReadFile against SimChip; a case = (file content length incl. boundary bands, header form, maxLe, secure messaging suite or none, chip response policy: size cap / short answers one|alt|rand|fixed / Le cap / extended length on|off / EOF warning, sibling files, absent file); " +
			"distinct_nontrivial counts distinct tuples (size class, maxLe class, suite, policy, ext-length, outcome class)",
		Engines:        []core.Engine{ReadFileEngine{}},
		Assumptions:    []string{"SimChip READ BINARY follows ISO/IEC 7816-4 and ICAO 9303-10 3.6.3.2: P1 bit 8 set means short-EF-identifier addressing (SFI 0 = current EF), offset in P2", "Go crypto/des, crypto/aes are correct"},
		RealComponents: realTerminal,
		SimComponents:  []string{"SimChip file system, READ BINARY/SELECT, chip-side secure messaging", "link (fault-free in this engine; the chip's response-splitting policies are the I/O faults)"},
		RequiredProbes: []string{"multi_chunk_ok", "fallback_ladder_used", "fallback_ladder_succeeded", "naked_response_branch"},
		QuickBudget:    60, ThoroughBudget: 900,
	})
}
