// Package engines holds the simulation engines (one per family of properties) and binds
// them to the property checks.
package engines

import "verif/sim/core"

var realTerminal = []string{"gmrtd iso7816.NfcSession", "gmrtd iso7816.SecureMessaging", "gmrtd tlv", "gmrtd cryptoutils"}

func RegisterAll() {
	core.Register(&core.Check{
		Property: "C20",
		Level:    "exploration",
		Rule: "race-detector build; 2-4 caller goroutines with scripts of 1-2 public API calls under the seeded cooperative scheduler (one worker released at a time; yield points before/after each call, inside Transceive, ReaderStatus, the slog handler, the crypto/rand.Reader proxy and the CertPool proxy, i.e. inside gmrtd's critical sections; hand-offs hidden from the detector so that only gmrtd's own locks order the workers); scenarios: A one shared reader.Reader (ReadDocument, SkipImages, SkipPace, WithAAChallenge), B one shared verifier.Verifier (Verify, WithAAChallenge), C independent readers/verifiers sharing one CertPool of each concrete type, D the mobile bindings in a fresh process incl. concurrent first use of the built-in trust store; oracles: zero race reports, porcupine linearizability against the real code executed alone on a fresh world with the same per-operation random streams, lone-execution equality for independent instances, master lists loaded once, no deadlock; " +
			"distinct_nontrivial counts distinct (scenario, pool type, workers, script, schedule+result fingerprint) tuples",
		Engines:        []core.Engine{SchedEngine{}},
		Assumptions:    []string{"the scheduler decides who runs at harness-owned yield points; between two yield points the released worker runs alone", "readiness of a call on a lock-protected object is probed with TryLock on its mu field (reflect+unsafe); the probe never provides exclusion", "porcupine Unknown (time-out) is inconclusive and never reported"},
		RealComponents: []string{"gmrtd reader.Reader, verifier.Verifier, mobile.Reader/Verifier/PreloadCscaCertPool, cms cert pools, and everything below them; Go race detector"},
		SimComponents:  []string{"SimSched cooperative scheduler", "SimChip/SimPKI worlds", "per-operation random streams"},
		RequiredProbes: []string{"lock_contended", "preempted_inside_call", "linearizable", "independent_instances_checked", "once_initialised_in_this_run"},
		SampledOracles: map[string]bool{"data-race": true},
		QuickBudget:    240, ThoroughBudget: 1200,
	})
	protoReal := []string{"gmrtd pace / bac / chipauth / activeauth, iso7816 (NfcSession, SecureMessaging), document constructors, password, mrz, cryptoutils"}
	protoSim := []string{"SimChip protocol stack (own KDF, MACs, paddings, tokens, mapping, signatures)", "on-path adversary / impostor chip", "seeded terminal randomness via crypto/rand.Reader"}
	core.Register(&core.Check{
		Property: "C04",
		Level:    "exploration",
		Rule: "real pace.DoPACE over a real NfcSession against the reference chip: every cell (parameter id 8..18) x (3DES, AES-128/192/256) x (GM, CAM) genuine at least 3 times incl. ground edge slices (shared x-coordinate with 1 or 2 leading zero octets, chip public coordinate with a leading zero octet), passwords from all MRZ layouts via mrz/mrzi/dg1 routes and CAN, several and unsupported PACE infos in seeded order; then faulted twins: wrong password, or exactly one chip message field altered by an on-path adversary (encrypted nonce, mapping key: other point / reflection / invalid / infinity / omitted, agreement key likewise, token flipped / truncated / omitted, encrypted CAM data flipped / omitted / extended from outside, and another well-formed scalar (negated, +1, doubled) encrypted by the chip model itself); " +
			"distinct_nontrivial counts distinct (mode, cell, password route, layout, junk infos, grinding, outcome) tuples",
		Engines:        []core.Engine{ProtoEngine{"pace"}},
		Assumptions:    []string{"nonce length 16 octets for every suite", "shared secret = fixed-length x-coordinate (TR-03111 FE2OS)"},
		RealComponents: protoReal, SimComponents: protoSim,
		RequiredProbes: []string{"shared_secret_leading_zero", "public_coordinate_leading_zero", "unsupported_pace_infos_present"},
		QuickBudget:    100, ThoroughBudget: 1200,
	})
	core.Register(&core.Check{
		Property: "C05",
		Level:    "exploration",
		Rule: "real bac.DoBAC against the reference chip personalised from the same MRZ (TD1/TD2/TD3, short document numbers with fillers, extended document numbers, every password route), all randoms from the seed incl. counters about to wrap followed by protected traffic across the wrap; hostile 40-byte answers to EXTERNAL AUTHENTICATE: all 320 single-bit mutations (enumerated), cryptogram under another MRZ's keys, genuine cryptogram of another run, correct MAC over a wrong RND.IFD / RND.IC echo or swapped echoes (adversary knowing the keys), the terminal's own cryptogram reflected, the three fields in wrong orders under the right keys, wrong lengths, zeros, error status, wrong password; document numbers with fillers inside; " +
			"distinct_nontrivial counts distinct (mode, bit, layout, route, document number length, outcome) tuples",
		Engines:        []core.Engine{ProtoEngine{"bac"}},
		Assumptions:    []string{"reference chip derives K_seed from its own MRZ_information code (check digits included)"},
		RealComponents: protoReal, SimComponents: protoSim,
		RequiredProbes: []string{"ssc_about_to_wrap", "extended_document_number", "document_number_with_fillers"},
		QuickBudget:    60, ThoroughBudget: 1200,
	})
	core.Register(&core.Check{
		Property: "C06",
		Level:    "exploration",
		Rule: "real chipauth.DoChipAuth inside an installed session against the key-holding reference chip for every curve (11) x named/explicit parameters x arrangements {info missing -> MSE:Set KAT, one info, key id, two keys with the second selected, two suites} x suites, incl. terminal ephemerals ground so that the shared secret starts with a zero octet; then impostor chips without the private key (own key pair behind the genuine DG14, no key switch, unprotected 9000 to everything, replay of a transcript recorded against another terminal ephemeral); the PACE-CAM leg is covered by the pace engine (C04 check) and the hostile-chip engine (C02 check); " +
			"distinct_nontrivial counts distinct (mode, CA arrangement, previous suite, outcome) tuples",
		Engines:        []core.Engine{ProtoEngine{"ca"}, ProtoEngine{"pace"}},
		Assumptions:    []string{"by construction an impostor cannot know the shared secret"},
		RealComponents: protoReal, SimComponents: protoSim,
		RequiredProbes: []string{"shared_secret_leading_zero", "suite_inferred_set_kat"},
		QuickBudget:    100, ThoroughBudget: 1200,
	})
	core.Register(&core.Check{
		Property: "C07",
		Level:    "exploration",
		Rule: "real activeauth.DoActiveAuth inside an installed session against the reference signer: RSA moduli 1024..4096 x trailers SHA-1/224/256/384/512 x chip-chosen M1 (random, zeros, FF, leading zeros), ECDSA on every curve in plain and DER form, caller-supplied challenge in half the runs; then an adversarial chip answer: bit flips, signature over another challenge (relay), by another key, truncated / extended, r or s zero / = n / + n, n-s (malleable, valid), digest over M1 only, unknown or mismatching trailer, random bytes, empty, DER for a plain key and DER with trailing bytes; RSA moduli of 1027/1030/2045/2047 bits as well; a chip whose first INTERNAL AUTHENTICATE attempts fail with a protected error status; offline nonce binding: live reads with a caller-supplied challenge are serialised and verified offline with the same, another, or the original challenge against a rewritten / truncated / extended recorded nonce, with and without a broken signature - every mismatch must be a hard error of Verify; " +
			"distinct_nontrivial counts distinct (mode, key, supplied, accepted, reference-valid) tuples",
		Engines:        []core.Engine{ProtoEngine{"aa"}, StoreVerifyEngine{}},
		Assumptions:    []string{"for RSA moduli whose bit length k is not a multiple of 8 the genuine recoverable message is taken to be the floor(k/8)-octet string starting with 6A (the longest one below the modulus); acceptance is demanded for it", "an adversarial response may be accepted iff the reference verifier confirms it is a valid signature by the DG15 key over exactly the challenge sent (signature malleability never alarms)", "ISO/IEC 9796-2 min(s, n-s) signatures are not generated"},
		RealComponents: protoReal, SimComponents: protoSim,
		RequiredProbes: []string{"adversarial_but_valid_accepted"},
		QuickBudget:    100, ThoroughBudget: 1200,
	})
	core.Register(&core.Check{
		Property: "C02",
		Level:    "exploration",
		Rule: "(a) end-to-end reads against adversarial chips, live and then offline (serialise, store, verify): clone without private keys; clone with substituted AA / CA keys (DG15/DG14 rewritten, SOD untouched or re-signed by an untrusted DS); chip withholding DG14 / DG15 still listed in the SOD; EF.CardAccess with an added or downgraded PACE info not contained in DG14; PACE-CAM with a CardSecurity signed by an untrusted DS or carrying a substituted key; each crossed with trusted / untrusted issuer and the access-control / curve / suite matrix; a genuine control; " +
			"(b) the gating invariant is evaluated on the DocumentEx of every run and swept exhaustively over all 324 combinations of step outcomes (PA absent/failed/ok x CardSec x AA x PACE-CAM x CA x completeness); distinct_nontrivial counts distinct (hostile kind, access arrangement, issuer trust, CA/AA arrangement, live+offline verdict) tuples plus sweep combinations",
		Engines:        []core.Engine{SweepEngine{}, HostileEngine{}},
		Assumptions:    []string{"by construction a clone cannot know the genuine private keys; substituted keys change a hashed file"},
		RealComponents: []string{"gmrtd reader, verifier, document.Session/DocumentEx.Summary, Document.Verify, passiveauth and all protocol packages"},
		SimComponents:  []string{"hostile SimChip personalisations", "SimPKI (trusted and untrusted issuers)", "simulated store for the offline leg"},
		RequiredProbes: []string{"sweep_combination"},
		QuickBudget:    90, ThoroughBudget: 1200,
	})
	core.Register(&core.Check{
		Property: "C09",
		Level:    "exploration",
		Rule: "fault-free twin of C01: the simulated issuer walks the issuing-profile matrix (CSCA key x DS key from {RSA 1024..4096, 11 curves named/explicit} stratified by run index, RSA PKCS#1/PSS, digests SHA-1..SHA-512 for certificates, signed attributes and DG hashes, SID issuerAndSerial/SKI, LDS SO v0/v1, signing time present/absent and at the DS / CSCA window edges, NULL-less digest AlgorithmIdentifiers, BER indefinite lengths at each subset of the three enclosing levels, extra embedded certificates, re-ordered / UTF8 issuer names in the SID, decoy anchors incl. a same-country anchor with the same key identifier listed first, CardSecurity); verdict through the real PassiveAuth on a Document built with the public constructors; " +
			"distinct_nontrivial counts distinct profile tuples",
		Engines:        []core.Engine{PKIProfileEngine{}},
		Assumptions:    []string{"explicit EC parameters always carry the cofactor (ICAO Doc 9303-12 requirement)", "RSA keys come from a pre-generated public test key pool"},
		RealComponents: []string{"gmrtd passiveauth, cms (parsing, chain building, signature verification), document constructors, tlv"},
		SimComponents:  []string{"SimPKI issuer with calendar (own DER/X.509/CMS writers and RSA/PSS/ECDSA signers)", "trust-store operator"},
		RequiredProbes: []string{"indefinite_length_retry_path", "second_anchor_candidate_used"},
		QuickBudget:    90, ThoroughBudget: 1200,
	})
	core.Register(&core.Check{
		Property: "C01",
		Level:    "exploration",
		Rule: "byzantine issuer / chip / trust-store operator and at-rest corruption: each run builds a genuine world (accepted first), applies exactly one fault of kinds A1..A10 (DG flip/replace/inject; hash list altered with and without messageDigest; re-signed by own chain / claiming the genuine CSCA / genuine DS with another key / attacker CSCA of another country / foreign DS; anchor removed, same-SKI other key, not CA, no keyCertSign, critical EKU, unknown critical extension; DS without keyUsage/digitalSignature/with unknown critical extension; signing time outside DS or CSCA window by 1 s..2 h; SOD country vs DG1; wrong contentType / messageDigest; the same on CardSecurity incl. its own signing time outside its signer's validity; master list tampered / wrong root / unchained signer; random byte substitution in SOD, CardSecurity and master list classified by the issuer's region map), stratified by fault kind x profile; " +
			"distinct_nontrivial counts distinct (fault, detail, CSCA profile, DS profile, verdict) tuples",
		Engines:        []core.Engine{PKIForgeryEngine{}, StoreVerifyEngine{}},
		Assumptions:    []string{"by-construction verdicts: acceptance of a must-reject fault would need a hash collision or a signature forgery", "byte substitutions in signature values may be accepted iff the issuer's own verifier accepts the modified signature; substitutions in unauthenticated fields / length octets carry no demand", "arbitrary CMS blobs that are not mutations of genuine documents are not searched"},
		RealComponents: []string{"gmrtd passiveauth, cms, document constructors, CreateCertPoolFromSignedData; verifier (offline path via the store engine)"},
		SimComponents:  []string{"SimPKI byzantine issuer", "byzantine chip file store", "byzantine trust-store operator"},
		QuickBudget:    100, ThoroughBudget: 1200,
	})
	core.Register(&core.Check{
		Property: "C14",
		Level:    "fault_enumeration",
		Rule: "live simulated session (CA with every curve/suite/key-id arrangement incl. legacy KAT, PACE-CAM, AA RSA/ECDSA) -> DocumentEx.ToCbor -> simulated store -> verifier.Verify with the same trust store; then a byzantine store rewrites each evidence field in turn (bit flips first/middle/last, +1/-1 for scalars and the counter, another valid curve point, other OIDs / parameter ids, empty, one-byte and oversized values, dropped bundle) and each document file / authenticated SOD region, recomputing every envelope checksum with its own CBOR writer; " +
			"distinct_nontrivial counts distinct (mechanisms, CA arrangement, AA key, access arrangement, PA verdict) tuples; faults_injected counts rewrites per mechanism",
		Engines:        []core.Engine{StoreVerifyEngine{}},
		Assumptions:    []string{"scalar mutations are +-1 (never +n, which denotes the same key)", "the documented joint replacement of chip agreement key and encrypted chip authentication data in PACE-CAM evidence is generated and is the only accepted exception", "EF.COM, EF.DIR and EF.CardAccess without DG14 are not covered by any verdict and are not mutated"},
		RealComponents: []string{"gmrtd reader (live capture), document CBOR export/import, verifier, chipauth/pace/activeauth VerifyEvidence, passiveauth"},
		SimComponents:  []string{"SimChip + SimPKI world for the live session", "simulated store with byzantine rewriter (own CBOR writer)"},
		RequiredProbes: []string{"cam_joint_replacement_accepted_documented_exception", "shared_secret_leading_zero"},
		QuickBudget:    90, ThoroughBudget: 1200,
	})
	core.Register(&core.Check{
		Property: "C15",
		Level:    "fault_enumeration",
		Rule: "per exported blob (Document and DocumentEx forms; seeded file subsets; files up to 65 000 bytes on a sparse grid; leading-zero evidence values; real and synthetic evidence of each of the three kinds) the simulated store applies, completely: every byte position x substitutions {xor 01, xor 80, 00, FF} (all 255 values on the first 80 and last 4 bytes), every truncation length, extension by 1..16 bytes and by a whole second blob; plus foreign magics and newer versions at each nesting level written with valid checksums; fault-free round trip first; " +
			"distinct_nontrivial counts distinct (blob form, file count, evidence kinds, size class) blobs; faults_injected counts individual corrupted imports",
		Engines:        []core.Engine{StoreCorruptEngine{}},
		Assumptions:    []string{"a lost write (stale but valid older blob) is not detectable by import and is outside the property", "nil and empty byte strings are the same content"},
		RealComponents: []string{"gmrtd document CBOR export/import incl. every file constructor"},
		SimComponents:  []string{"simulated store: bit-rot, torn writes, extension, byzantine envelope rewrite"},
		Exhaustive:     func(tier string) bool { return false },
		QuickBudget:    90, ThoroughBudget: 1200,
	})
	core.Register(&core.Check{
		Property: "C11",
		Level:    "fault_enumeration",
		Rule: "per chip configuration (12: BAC / PACE-GM 3DES,AES / PACE-CAM / +AA RSA,ECDSA / +CA legacy,AT / extended length / ladder paths / untrusted issuer) the fault-free read fixes E exchanges; every exchange index k in [0,E) x every link fault variant (lost response/command, truncations, bit garbles, oversize, 9 bare status words, replays, swap, SM data-object drop/dup/reorder/re-encode, SW mismatch, chip power cycle, dead link) runs as its own simulation (quick: 3 configurations rotating with the seed, thorough: all), then seeded 2-5 fault plans biased to protocol transitions; in addition single-file reads (NfcSession.ReadFile in the clear and under each suite, all chunking behaviours and read sizes of the C13 engine) with one or two link faults at a seeded exchange of the read; " +
			"distinct_nontrivial counts distinct (configuration, exchange index, fault variant, outcome) tuples whose fault actually fired",
		Engines:        []core.Engine{E2EFaultEngine{}, ReadFileEngine{}},
		Assumptions:    []string{"files read without secure messaging (EF.CardAccess) cannot be protected against an on-path modifier by any terminal: there the oracle is 'identical, or not DataTrusted when DG14 is present' (DESIGN.md 6.11, 10)", "no liveness is claimed after a fault: the library has no recovery path"},
		RealComponents: []string{"gmrtd reader and everything below it (unmodified)"},
		SimComponents:  []string{"SimChip", "SimPKI world", "faulty link with per-exchange fault plan"},
		RequiredProbes: []string{"read_completed_despite_fault", "clear_file_modified"},
		CrashOwner:     true,
		Exhaustive:     func(tier string) bool { return false },
		QuickBudget:    120, ThoroughBudget: 1200,
	})
	core.Register(&core.Check{
		Property: "C08",
		Level:    "exploration",
		Rule: "complete reader.ReadDocument against a generated personalisation: access control {BAC only, PACE+BAC, PACE only, PACE-CAM} x curve (11) x suite (4) stratified by run index; password route mrz|mrzi|dg1|can; DG subset and sizes around chunk/length boundaries (incl. files > 32 KiB); chip response policies (size caps, short answers, Le caps, extended length on/off, EOF warnings, SELECT MF forms, access check at SELECT or READ); terminal maxLe 64..65536, SkipPace, SkipImages, AA key type/size, CA arrangement (legacy KAT, AT, key ids, two keys), trusted vs untrusted issuer, issuer profile; " +
			"distinct_nontrivial counts distinct (access arrangement, issuer profile, password route, CA, AA, read-size class, envelope, outcome) tuples",
		Engines:        []core.Engine{E2EEngine{}},
		Assumptions:    []string{"success is required only inside the tolerated read-size envelope (DESIGN.md 6.8); outside it only the safety half is checked", "CA may be absent when AA or PACE-CAM already succeeded (documented pipeline rule)"},
		RealComponents: []string{"gmrtd reader, pace, bac, chipauth, activeauth, iso7816, passiveauth, cms, document, tlv, mrz, password, cryptoutils (all unmodified)"},
		SimComponents:  []string{"SimChip (full protocol stack, file system)", "SimPKI issuer (own DER/X.509/CMS builders and signers)", "fault-free link", "seeded terminal randomness via crypto/rand.Reader"},
		RequiredProbes: []string{"fallback_ladder_used", "shared_secret_leading_zero"},
		QuickBudget:    80, ThoroughBudget: 1200,
	})
	core.Register(&core.Check{
		Property: "C12",
		Level:    "exploration",
		Rule: "boundary-scoped: adversarial bytes reach the parsers only as a chip, a link or a stored blob can deliver them. Engines: hostile-files (a byzantine chip serves structure-aware lies - bit/byte/truncation faults, TLV lengths larger/smaller/4 GiB/indefinite, nesting beyond the limit, > 10 000 nodes, tag 00, long tags, inner length lies, duplicated/empty content, claimed giant images - in each of EF.CardAccess, EF.CardSecurity, EF.SOD, EF.COM, DG1/2/7/11/12/13/14/15/16 through a real read, then the result goes through export, store and the offline verifier); smduel-resp (forged protected responses into secure-messaging decoding); store-corrupt and store-verify (rotten and byzantine blobs into import / Verify / evidence verification); pki-forgery (corrupted SOD, CardSecurity, master lists into CMS and certificate parsing); proto-aa / proto-bac (hostile chip answers to INTERNAL / EXTERNAL AUTHENTICATE incl. signatures by the key holder over short or oddly framed recoverable messages). Monitors: panic (escaped, or contained by the reader's recover and reproduced on the constructor alone), worker death re-executed alone, deterministic exchange and logging-step bounds, bytes allocated per call against a linear budget; " +
			"distinct_nontrivial counts distinct (engine-specific target, mutation, outcome) tuples",
		Engines:        []core.Engine{HostileFilesEngine{}, SMRespEngine{}, StoreCorruptEngine{}, StoreVerifyEngine{}, PKIForgeryEngine{}, ProtoEngine{"aa"}, ProtoEngine{"bac"}},
		Assumptions:    []string{"boundary-scoped: only inputs that a chip, link or stored blob can deliver through the real read / verify paths are generated; calling each entry point with arbitrary byte strings is input fuzzing and not part of this claim (DESIGN.md 6.12)", "allocation budget: 8 MiB + 2 KiB per input byte for one response; 256 MiB + 8 KiB per stored byte for a whole read; 1 MiB + 1 KiB per byte for one file constructor call; 64 MiB + 4 KiB per byte for Verify"},
		RealComponents: []string{"gmrtd reader, iso7816 (SM decode), tlv, every document constructor, cms, mrz, iso19794/39794, document CBOR import, verifier, evidence verification"},
		SimComponents:  []string{"byzantine SimChip file contents", "adversarial link", "rotten / byzantine store", "byzantine issuer"},
		RequiredProbes: []string{"rejected"},
		CrashOwner:     true,
		QuickBudget:    150, ThoroughBudget: 1200,
	})
	core.Register(&core.Check{
		Property: "C03",
		Level:    "fault_enumeration",
		Rule: "active adversary on protected responses: for each suite (3DES, AES-128/192/256) x response shapes, every single-bit flip and every truncation length of a short genuine response is enumerated; then seeded histories (0-40 genuine exchanges, initial SSC zero/random/near-wrap/carry across an inner byte or word boundary, via NfcSession.DoAPDU or SecureMessaging directly) with one adversarial delivery of kind " +
			"bitflip|bytesub|truncate|do_drop|do_dup|do_reorder|do_nonminimal_len|sw_mismatch|replay|future|cross_session|plaintext|bare_status|random|append|wrong_ssc_rewrap|strip_mac|empty; distinct_nontrivial counts distinct (attack, suite, data-length class, position for bitflip/truncate, status word, SSC mode, path, outcome) tuples in which the attack actually fired",
		Engines:        []core.Engine{SMRespEngine{}},
		Assumptions:    []string{"reference chip secure messaging (own retail MAC / CMAC / padding / counter) is the authority for what the chip authenticated", "identical-content acceptances of re-encoded or re-ordered data objects are counted (benign_malleable_accepts), not alarmed: the property's operative clause is 'never different plaintext or a different status' (DESIGN.md 6.3, 10)"},
		RealComponents: realTerminal,
		SimComponents:  []string{"scripted card with reference chip-side secure messaging", "active on-path adversary"},
		RequiredProbes: []string{"rejected"},
		Exhaustive:     nil,
		QuickBudget:    60, ThoroughBudget: 1200,
	})
	core.Register(&core.Check{
		Property: "C10",
		Level:    "exploration",
		Rule: "seeded command histories (1-2000 commands) through the real NfcSession.DoAPDU with a session installed: four ISO cases, short/extended, odd/even INS, data lengths around block, 255/256 and the largest protectable size, Le in {0,1..255,256,257..65535,65536}, initial SSC incl. about-to-wrap and carries across inner word boundaries, a quarter of the histories sending consecutive pieces of one caller buffer, cards with and without extended-length support, arbitrary protected status words; every command is parsed by the strict reference parser and unwrapped by the reference chip; SSC lockstep is checked after every exchange; " +
			"distinct_nontrivial counts distinct (suite, SSC mode, ext support, history length bucket, top (INS parity, data, Le class, Lc class) tuple) keys",
		Engines:        []core.Engine{SMCmdEngine{}},
		Assumptions:    []string{"DO'85' (odd INS) carries the padding-content indicator 01 like DO'87', as the property statement words it", "reference chip secure messaging written from 9303-11 9.8 is the independent chip-side implementation"},
		RealComponents: realTerminal,
		SimComponents:  []string{"scripted card with reference chip-side secure messaging and strict ISO 7816-4 command parser"},
		RequiredProbes: []string{"ssc_wrap", "transport_reject", "authenticated_after_transport_reject", "protected_error_status", "odd_ins"},
		QuickBudget:    60, ThoroughBudget: 1200,
	})
	core.Register(&core.Check{
		Property: "C13",
		Level:    "exploration",
		Rule: "seeded runs of the real NfcSession.ReadFile against SimChip; a case = (file content length incl. boundary bands, header form, maxLe, secure messaging suite or none, chip response policy: size cap / short answers one|alt|rand|fixed / Le cap / extended length on|off / EOF warning, sibling files, absent file); " +
			"distinct_nontrivial counts distinct tuples (size class, maxLe class, suite, policy, ext-length, outcome class)",
		Engines:        []core.Engine{ReadFileEngine{}},
		Assumptions:    []string{"SimChip READ BINARY follows ISO/IEC 7816-4 and ICAO 9303-10 3.6.3.2: P1 bit 8 set means short-EF-identifier addressing (SFI 0 = current EF), offset in P2", "Go crypto/des, crypto/aes are correct"},
		RealComponents: realTerminal,
		SimComponents:  []string{"SimChip file system, READ BINARY/SELECT, chip-side secure messaging", "link (fault-free in this engine; the chip's response-splitting policies are the I/O faults)"},
		RequiredProbes: []string{"multi_chunk_ok", "fallback_ladder_used", "fallback_ladder_succeeded", "naked_response_branch"},
		QuickBudget:    60, ThoroughBudget: 1200,
	})
}
