package engines

import (
	"bytes"
	"encoding/json"
	"fmt"

	"github.com/gmrtd/gmrtd/document"
	"github.com/gmrtd/gmrtd/iso7816"
	"github.com/gmrtd/gmrtd/reader"

	"verif/sim/chip"
	"verif/sim/core"
	"verif/sim/term"
	"verif/sim/world"
)

// statusRec implements reader.ReaderStatus (a seam the harness owns).
type statusRec struct {
	phases []int
	hook   func()
}

func (s *statusRec) Status(st reader.Status) {
	s.phases = append(s.phases, int(st.Phase))
	if s.hook != nil {
		s.hook()
	}
}

// ReadRun is one simulated end-to-end read.
type ReadRun struct {
	W      *world.World
	Chip   *chip.Chip
	Link   *term.Link
	Nfc    *iso7816.NfcSession
	Doc    *document.DocumentEx
	Err    error
	Panic  any
	AAChal []byte
	Status *statusRec
	Slog   int64
}

func runRead(spec world.WorldSpec, faults []term.Fault, out *core.Outcome, prep func(r *ReadRun)) *ReadRun {
	term.InstallSeams()
	r := &ReadRun{}
	r.W = world.Build(spec)
	r.Chip = r.W.NewChip()
	r.Link = term.NewLink(r.Chip, faults, out)
	r.Nfc = iso7816.NewNfcSession(r.Link)
	if spec.MaxLe > 0 {
		r.Nfc.SetMaxLe(spec.MaxLe)
	}
	if prep != nil {
		prep(r)
	}
	pass, err := r.W.PasswordFor()
	if err != nil {
		r.Err = fmt.Errorf("harness: password: %w", err)
		return r
	}
	trng := core.NewRng(core.SubSeed(spec.Seed, "terminal"))
	term.SetTerminalRandom(trng)
	defer term.RestoreRandom()
	r.Status = &statusRec{}
	rd := reader.NewReader(r.Status, r.Nfc, r.W.Pool)
	if spec.SkipPace {
		rd.SkipPace()
	}
	if spec.SkipImages {
		rd.SkipImages()
	}
	if spec.AAChallenge {
		r.AAChal = core.NewRng(core.SubSeed(spec.Seed, "aachal")).Bytes(8)
		if _, err := rd.WithAAChallenge(r.AAChal); err != nil {
			r.Err = fmt.Errorf("harness: WithAAChallenge: %w", err)
			return r
		}
	}
	s0 := term.SlogSteps.Load()
	term.ArmStepBound(20000000) // far above any read (fault-free reads log a few thousand records); cuts logging loops
	func() {
		defer func() { r.Panic = recover() }()
		r.Doc, _, r.Err = rd.ReadDocument(pass, []byte{0x3B, 0x80}, []byte{0x78, 0x77})
	}()
	term.DisarmStepBound()
	r.Slog = term.SlogSteps.Load() - s0
	return r
}

func raw(p document.RawDataProvider) []byte {
	if p == nil {
		return nil
	}
	return p.GetRawData()
}

// docFiles lists (name, bytes in the document, bytes on the chip) for every file slot.
func docFiles(d *document.Document, w *world.World) [](struct {
	Name      string
	Got, Want []byte
	Present   bool
	N         int
}) {
	type row = struct {
		Name      string
		Got, Want []byte
		Present   bool
		N         int
	}
	var rows []row
	add := func(name string, present bool, got []byte, want []byte, n int) {
		rows = append(rows, row{name, got, want, present, n})
	}
	mf := d.Mf
	add("CardAccess", mf.CardAccess != nil, rawOr(mf.CardAccess != nil, func() []byte { return mf.CardAccess.RawData }), w.MF[chip.FidCardAccess], 0)
	add("CardSecurity", mf.CardSecurity != nil, rawOr(mf.CardSecurity != nil, func() []byte { return mf.CardSecurity.RawData }), w.MF[chip.FidCardSecurity], 0)
	add("DIR", mf.Dir != nil, rawOr(mf.Dir != nil, func() []byte { return mf.Dir.RawData }), w.MF[chip.FidDir], 0)
	l := mf.Lds1
	add("COM", l.Com != nil, rawOr(l.Com != nil, func() []byte { return l.Com.RawData }), w.LDS[chip.FidCOM], 0)
	add("SOD", l.Sod != nil, rawOr(l.Sod != nil, func() []byte { return l.Sod.RawData }), w.LDS[chip.FidSOD], 0)
	add("DG1", l.Dg1 != nil, rawOr(l.Dg1 != nil, func() []byte { return l.Dg1.RawData }), w.LDS[chip.FidDG(1)], 1)
	add("DG2", l.Dg2 != nil, rawOr(l.Dg2 != nil, func() []byte { return l.Dg2.RawData }), w.LDS[chip.FidDG(2)], 2)
	add("DG7", l.Dg7 != nil, rawOr(l.Dg7 != nil, func() []byte { return l.Dg7.RawData }), w.LDS[chip.FidDG(7)], 7)
	add("DG11", l.Dg11 != nil, rawOr(l.Dg11 != nil, func() []byte { return l.Dg11.RawData }), w.LDS[chip.FidDG(11)], 11)
	add("DG12", l.Dg12 != nil, rawOr(l.Dg12 != nil, func() []byte { return l.Dg12.RawData }), w.LDS[chip.FidDG(12)], 12)
	add("DG13", l.Dg13 != nil, rawOr(l.Dg13 != nil, func() []byte { return l.Dg13.RawData }), w.LDS[chip.FidDG(13)], 13)
	add("DG14", l.Dg14 != nil, rawOr(l.Dg14 != nil, func() []byte { return l.Dg14.RawData }), w.LDS[chip.FidDG(14)], 14)
	add("DG15", l.Dg15 != nil, rawOr(l.Dg15 != nil, func() []byte { return l.Dg15.RawData }), w.LDS[chip.FidDG(15)], 15)
	add("DG16", l.Dg16 != nil, rawOr(l.Dg16 != nil, func() []byte { return l.Dg16.RawData }), w.LDS[chip.FidDG(16)], 16)
	return rows
}

func rawOr(ok bool, f func() []byte) []byte {
	if !ok {
		return nil
	}
	return f()
}

// checkFilesIdentical: every file present in the result must be byte-identical to the chip's file.
// clearOK names files read without secure messaging for which the caller applies a narrower rule.
func checkFilesIdentical(out *core.Outcome, prop string, r *ReadRun, skip map[string]bool) (allSame bool) {
	allSame = true
	if r.Doc == nil {
		return
	}
	for _, f := range docFiles(&r.Doc.Document, r.W) {
		if !f.Present || skip[f.Name] {
			continue
		}
		if !bytes.Equal(f.Got, f.Want) {
			allSame = false
			out.Violate(prop, "file-differs", f.Name, "%s in the returned document (%d bytes) differs from the chip's file (%d bytes)", f.Name, len(f.Got), len(f.Want))
		}
	}
	return
}

// trustInvariant is the C02 invariant, evaluated on every DocumentEx any engine produces.
func trustInvariant(out *core.Outcome, d *document.DocumentEx, where string) {
	if d == nil {
		return
	}
	s := d.Session
	sum := d.Summary()
	paOK := s.PassiveAuthResult != nil && s.PassiveAuthResult.Success
	if sum.DataTrusted && !(paOK && s.DocumentVerifyErr == nil) {
		out.Violate("C02", "trusted-without-pa-or-completeness", where, "DataTrusted although PA success=%v, DocumentVerifyErr=%v", paOK, s.DocumentVerifyErr)
	}
	switch int(sum.ChipAuthenticity) {
	case document.CHIP_AUTH_STATUS_NONE:
	case document.CHIP_AUTH_STATUS_AA:
		if !(s.ActiveAuthResult != nil && s.ActiveAuthResult.Success && paOK) {
			out.Violate("C02", "chip-authentic-ungated", where+"/AA", "ChipAuthenticity=AA although AA success=%v PA=%v", s.ActiveAuthResult != nil && s.ActiveAuthResult.Success, paOK)
		}
	case document.CHIP_AUTH_STATUS_PACE_CAM:
		if !(s.PaceCamResult != nil && s.PaceCamResult.Success && paOK && s.PassiveAuthResult.CardSec != nil) {
			out.Violate("C02", "chip-authentic-ungated", where+"/CAM", "ChipAuthenticity=PACE-CAM although CAM success=%v PA=%v CardSec authenticated=%v", s.PaceCamResult != nil && s.PaceCamResult.Success, paOK, paOK && s.PassiveAuthResult.CardSec != nil)
		}
	case document.CHIP_AUTH_STATUS_CA:
		if !(s.ChipAuthResult != nil && s.ChipAuthResult.Success && paOK) {
			out.Violate("C02", "chip-authentic-ungated", where+"/CA", "ChipAuthenticity=CA although CA success=%v PA=%v", s.ChipAuthResult != nil && s.ChipAuthResult.Success, paOK)
		}
	default:
		out.Violate("C02", "chip-authentic-unknown-value", where, "ChipAuthenticity=%d", int(sum.ChipAuthenticity))
	}
}

// stepsVsChip: a step reported successful must be one the chip's session record shows completed.
func stepsVsChip(out *core.Outcome, prop string, r *ReadRun) {
	if r.Doc == nil {
		return
	}
	s := r.Doc.Session
	f := r.Chip.Facts
	if s.BacResult != nil && s.BacResult.Success && !f.BACDone {
		out.Violate(prop, "step-success-not-completed-by-chip", "BAC", "BAC reported successful but the chip never completed mutual authentication")
	}
	if s.PaceResult != nil && s.PaceResult.Success && !f.PACEDone {
		out.Violate(prop, "step-success-not-completed-by-chip", "PACE", "PACE reported successful but the chip never completed PACE")
	}
	if s.PaceCamResult != nil && s.PaceCamResult.Success && !(f.PACEDone && f.CAMSent) {
		out.Violate(prop, "step-success-not-completed-by-chip", "PACE-CAM", "PACE-CAM reported successful but the chip never sent chip authentication data")
	}
	if s.ChipAuthResult != nil && s.ChipAuthResult.Success && !(f.CASwitched && f.CAConfirmed) {
		out.Violate(prop, "step-success-not-completed-by-chip", "CA", "CA reported successful but the chip did not switch keys and authenticate a command under them (switched=%v confirmed=%v)", f.CASwitched, f.CAConfirmed)
	}
	if s.ActiveAuthResult != nil && s.ActiveAuthResult.Success {
		ok := false
		if s.ActiveAuthResult.Evidence != nil {
			for _, c := range f.AAChallenges {
				if bytes.Equal(c, s.ActiveAuthResult.Evidence.Nonce) {
					ok = true
				}
			}
		}
		if !ok {
			out.Violate(prop, "step-success-not-completed-by-chip", "AA", "AA reported successful but the chip never signed the recorded challenge")
		}
	}
}

// plainProtocolOracle: BAC and PACE run before a session exists, so their chip messages are not covered by the
// secure-messaging oracle. A mechanism may be reported successful only if every chip message of that protocol
// reached the terminal exactly as the chip sent it (any altered, lost, replayed or foreign message must make it fail).
func plainProtocolOracle(out *core.Outcome, prop string, r *ReadRun) {
	if r.Doc == nil {
		return
	}
	altered := func(ins byte) (bool, int) {
		for k, cmd := range r.Link.Cmds {
			if len(cmd) < 2 || cmd[1] != ins || cmd[0]&0x0C != 0 {
				continue
			}
			if k < len(r.Link.Delivered) && !sameMessage(r.Link.Delivered[k], r.Link.Genuine[k]) {
				return true, k
			}
		}
		return false, -1
	}
	s := r.Doc.Session
	if s.BacResult != nil && s.BacResult.Success {
		if a, k := altered(0x82); a {
			out.Violate(prop, "success-despite-altered-chip-message", "BAC", "BAC reported successful although the chip's EXTERNAL AUTHENTICATE answer (exchange %d) did not reach the terminal unaltered", k)
		}
		if a, k := altered(0x84); a {
			out.Violate(prop, "success-despite-altered-chip-message", "BAC/challenge", "BAC reported successful although the chip's challenge (exchange %d) did not reach the terminal unaltered", k)
		}
	}
	if s.PaceResult != nil && s.PaceResult.Success {
		if a, k := altered(0x86); a {
			out.Violate(prop, "success-despite-altered-chip-message", "PACE", "PACE reported successful although a chip GENERAL AUTHENTICATE answer (exchange %d) did not reach the terminal unaltered", k)
		}
	}
}

// sameMessage: byte-identical, or differing only in BER length encoding / trailing duplicate objects, i.e. the
// same status word and the same first data object (tag and content).
func sameMessage(a, b []byte) bool {
	if bytes.Equal(a, b) {
		return true
	}
	if len(a) < 2 || len(b) < 2 || !bytes.Equal(a[len(a)-2:], b[len(b)-2:]) {
		return false
	}
	return canon(a[:len(a)-2], true) != "" && canon(a[:len(a)-2], true) == canon(b[:len(b)-2], true)
}

func canon(b []byte, firstOnly bool) string {
	ts, err := chip.ParseTLVs(b)
	if err != nil || len(ts) == 0 {
		return ""
	}
	out := ""
	for i, t := range ts {
		if firstOnly && i > 0 {
			break
		}
		inner := ""
		if t.Tag == 0x7C || t.Tag&0x20 != 0 && t.Tag < 0x100 {
			inner = canon(t.Val, false)
		}
		if inner == "" {
			inner = fmt.Sprintf("%x", t.Val)
		}
		out += fmt.Sprintf("[%x:%s]", t.Tag, inner)
	}
	return out
}

// smExchangeOracle: every exchange the library accepted while a session was installed (it appears in the
// APDU log with a protected child entry) must be one the chip processed, and the plaintext response the
// library delivered must be exactly the plaintext response the chip protected for that exchange.
func smExchangeOracle(out *core.Outcome, prop string, r *ReadRun) {
	if r.Nfc == nil || r.Nfc.ApduLog() == nil {
		return
	}
	byCmd := map[string]*chip.Exchange{}
	for i := range r.Chip.Log {
		byCmd[string(r.Chip.Log[i].CmdRaw)] = &r.Chip.Log[i]
	}
	for _, e := range r.Nfc.ApduLog().Entries {
		if e == nil || e.Child == nil {
			continue
		}
		ex, ok := byCmd[string(e.Child.Tx)]
		if !ok {
			out.Violate(prop, "accepted-response-chip-never-sent", e.Desc, "the library accepted a protected response (%s) for a command the chip never processed", e.Desc)
			out.Violate("C03", "accepted-forged", "e2e/"+e.Desc, "accepted a protected response for a command the chip never processed (%s)", e.Desc)
			continue
		}
		want := append(bytes.Clone(ex.PlainData), byte(ex.PlainSW>>8), byte(ex.PlainSW))
		if !ex.RespSM || !bytes.Equal(e.Rx, want) {
			// known weakness of the naked-response counter roll-back (C03 known finding "naked-then-stale"): the genuine,
			// never delivered response of the immediately preceding rolled-back exchange is accepted for the retry.
			// It does not touch what C11 states (no wrong file bytes, no false success), so it is counted here, not alarmed.
			if staleAfterRollback(r, ex, e.Rx) {
				out.Probe("stale_response_after_rollback_accepted")
				continue
			}
			out.Violate(prop, "accepted-response-differs-from-chip", e.Desc, "exchange %d (%s): library delivered %x, the chip protected %x (protected=%v, sm error=%q)", ex.N, e.Desc, e.Rx, want, ex.RespSM, ex.SMError)
			out.Violate("C03", "accepted-forged", "e2e/"+e.Desc, "exchange %d (%s): library delivered %x, the chip protected %x", ex.N, e.Desc, e.Rx, want)
		}
	}
}

// staleAfterRollback: rx is the plaintext the chip protected for an earlier exchange whose delivery to the terminal
// was replaced by a bare status word (so the terminal rolled its counter back), with nothing accepted in between.
func staleAfterRollback(r *ReadRun, ex *chip.Exchange, rx []byte) bool {
	for j := ex.N - 1; j >= 0 && j >= ex.N-4; j-- {
		prev := r.Chip.Log[j]
		if !prev.RespSM {
			continue
		}
		if !bytes.Equal(append(bytes.Clone(prev.PlainData), byte(prev.PlainSW>>8), byte(prev.PlainSW)), rx) {
			continue
		}
		// find the link exchange that carried this chip exchange and check that a bare status was delivered instead
		for k, cmd := range r.Link.Cmds {
			if bytes.Equal(cmd, prev.CmdRaw) && k < len(r.Link.Delivered) && len(r.Link.Delivered[k]) <= 2 {
				return true
			}
		}
	}
	return false
}

// ------------------------------------------------------------------ C08 engine

type E2ECase struct {
	Spec     world.WorldSpec `json:"spec"`
	Envelope bool            `json:"envelope"` // generated inside the tolerated read-size envelope
}

type E2EEngine struct{}

func (E2EEngine) Name() string { return "e2e" }
func (E2EEngine) Decode(raw json.RawMessage) (any, error) {
	var c E2ECase
	err := json.Unmarshal(raw, &c)
	return c, err
}

func (E2EEngine) Gen(prop, tier string, seed uint64, yield func(c any) bool) {
	n := 1800
	if tier == "thorough" {
		n = 60000
	}
	rng := core.NewRng(core.SubSeed(seed, "e2e", tier))
	for i := 0; i < n; i++ {
		env := i%5 != 4
		if !yield(E2ECase{Spec: genWorld(rng, i, env), Envelope: env}) {
			return
		}
	}
}

func (E2EEngine) Shrink(ci any) []any {
	c := ci.(E2ECase)
	var out []any
	add := func(m func(s *world.WorldSpec)) {
		y := c
		y.Spec.DGs = append([]int{}, c.Spec.DGs...)
		y.Spec.PACE = append([]world.PaceSpec{}, c.Spec.PACE...)
		m(&y.Spec)
		a, _ := json.Marshal(y)
		b, _ := json.Marshal(c)
		if !bytes.Equal(a, b) {
			out = append(out, y)
		}
	}
	add(func(s *world.WorldSpec) { s.B = chip.DefaultBehaviour() })
	add(func(s *world.WorldSpec) { s.MaxLe = 256 })
	add(func(s *world.WorldSpec) { s.DGs = []int{1} })
	add(func(s *world.WorldSpec) { s.EACDGs = nil })
	add(func(s *world.WorldSpec) { s.AA = nil })
	add(func(s *world.WorldSpec) { s.CA = nil })
	add(func(s *world.WorldSpec) { s.PaceJunk = 0 })
	add(func(s *world.WorldSpec) { s.DecoyAnchors = 0 })
	add(func(s *world.WorldSpec) { s.Indefinite = false })
	add(func(s *world.WorldSpec) { s.SkipImages, s.SkipPace, s.AAChallenge = false, false, false })
	add(func(s *world.WorldSpec) { s.DG2Size, s.DG7Size, s.DG13Size = 16, 16, 1 })
	add(func(s *world.WorldSpec) {
		if len(s.PACE) > 1 {
			s.PACE = s.PACE[:1]
		}
	})
	add(func(s *world.WorldSpec) {
		s.CSCA, s.CSCAScheme = world.KeySpec{Kind: "ec", CurveID: 12}, world.SchemeSpec{Kind: "ecdsa", Hash: "SHA256"}
	})
	add(func(s *world.WorldSpec) {
		s.DS, s.DSScheme = world.KeySpec{Kind: "ec", CurveID: 12}, world.SchemeSpec{Kind: "ecdsa", Hash: "SHA256"}
	})
	add(func(s *world.WorldSpec) { s.DGHash = "SHA256" })
	add(func(s *world.WorldSpec) { s.Layout = "TD3" })
	return out
}

// inEnvelope decides whether success is required for this configuration (DESIGN 6.8).
func inEnvelope(s world.WorldSpec) bool {
	b := s.B
	if b.ShortMode != "" && !(b.ShortMode == "fixed" && b.ShortFixed >= 4) {
		return false
	}
	if b.MaxResp != 0 && b.MaxResp < 4 {
		return false
	}
	maxLe := s.MaxLe
	if maxLe == 0 {
		maxLe = 256
	}
	if maxLe > 256 && !b.ExtLen {
		return false
	}
	if maxLe < 64 {
		return false
	}
	eff := maxLe
	if b.LeCap > 0 && maxLe > b.LeCap {
		eff = 0
		for _, f := range []int{256, 192, 128} {
			if f < maxLe && f <= b.LeCap {
				eff = f
				break
			}
		}
		if eff == 0 {
			return false
		}
	}
	if s.AA != nil && s.AA.Kind == "rsa" && s.AA.Bits/8 > eff {
		return false
	}
	if s.AA != nil && s.AA.Kind == "ec" {
		// plain r||s up to 132 bytes, DER a little more
		if 140 > eff {
			return false
		}
	}
	chunk := eff
	if b.MaxResp > 0 && b.MaxResp < chunk {
		chunk = b.MaxResp
	}
	if b.ShortMode == "fixed" && b.ShortFixed < chunk {
		chunk = b.ShortFixed
	}
	big := s.DG2Size
	if has13 := func() bool {
		for _, d := range s.DGs {
			if d == 13 {
				return true
			}
		}
		return false
	}(); has13 && s.DG13Size > big {
		big = s.DG13Size
	}
	if big/chunk > 900 {
		return false
	}
	return true
}

type expect struct {
	pace, cam, bac, aa, ca bool
}

func expected(s world.WorldSpec) expect {
	var e expect
	if len(s.PACE) > 0 && !s.SkipPace {
		e.pace = true
		for _, p := range s.PACE {
			if p.CAM {
				e.cam = true // CAM has the highest preference
			}
		}
	}
	if !e.pace && s.BAC && s.Password != "can" {
		e.bac = true
	}
	e.aa = s.AA != nil
	e.ca = s.CA != nil && !e.aa && !e.cam
	return e
}

func (E2EEngine) Run(prop string, ci any) *core.Outcome {
	c := ci.(E2ECase)
	out := &core.Outcome{}
	r := runRead(c.Spec, nil, out, nil)
	out.Exchanges = r.Link.N
	out.Fingerprint = r.Link.Log.Fingerprint()
	s := c.Spec
	sig := func(x string) string { return x }
	if r.Panic != nil {
		out.Violate("C08", "panic", "ReadDocument", "panic escaped ReadDocument: %v", r.Panic)
		out.Violate("C11", "panic", "ReadDocument", "panic escaped ReadDocument: %v", r.Panic)
		return out
	}
	if r.Link.Overrun {
		out.Violate("C08", "no-termination", "read", "more than %d exchanges", r.Link.MaxExchanges)
	}
	env := inEnvelope(s)
	e := expected(s)
	// safety half: always
	checkFilesIdentical(out, "C08", r, nil)
	stepsVsChip(out, "C08", r)
	smExchangeOracle(out, "C08", r)
	plainProtocolOracle(out, "C08", r)
	trustInvariant(out, r.Doc, "e2e-live")
	if r.Chip.Facts.PlainWhileSM > 0 {
		out.Violate("C10", "plain-while-sm", "e2e", "the chip received %d unprotected command(s) while a session was installed", r.Chip.Facts.PlainWhileSM)
	}
	if len(r.Chip.Facts.StrictRejects) > 0 {
		out.Probe("strict_parser_rejects")
	}
	outcome := "ok"
	if r.Err != nil {
		outcome = "error"
	}
	if env {
		if r.Err != nil {
			out.Violate("C08", "read-failed-in-envelope", sig("read-error"), "conforming chip, right password, tolerated sizes, but ReadDocument failed: %v", r.Err)
		} else if r.Doc != nil {
			d := r.Doc
			ss := d.Session
			ok := func(b bool) string {
				if b {
					return "succeeded"
				}
				return "not successful"
			}
			got := expect{
				pace: ss.PaceResult != nil && ss.PaceResult.Success,
				cam:  ss.PaceCamResult != nil && ss.PaceCamResult.Success,
				bac:  ss.BacResult != nil && ss.BacResult.Success,
				aa:   ss.ActiveAuthResult != nil && ss.ActiveAuthResult.Success,
				ca:   ss.ChipAuthResult != nil && ss.ChipAuthResult.Success,
			}
			if got.pace != e.pace {
				out.Violate("C08", "mechanism-outcome", "PACE", "PACE expected=%v but %s (err=%v)", e.pace, ok(got.pace), ss.PaceErr)
				out.Violate("C04", "pace-interop", fmt.Sprintf("param=%d", firstParam(s)), "PACE expected=%v but %s (err=%v)", e.pace, ok(got.pace), ss.PaceErr)
			}
			if got.cam != e.cam {
				out.Violate("C08", "mechanism-outcome", "PACE-CAM", "PACE-CAM expected=%v but %s (err=%v)", e.cam, ok(got.cam), ss.PaceErr)
			}
			if got.bac != e.bac {
				out.Violate("C08", "mechanism-outcome", "BAC", "BAC expected=%v but %s (err=%v)", e.bac, ok(got.bac), ss.BacErr)
			}
			if got.aa != e.aa {
				out.Violate("C08", "mechanism-outcome", "AA", "AA expected=%v but %s (err=%v)", e.aa, ok(got.aa), ss.ActiveAuthErr)
			}
			if got.ca != e.ca {
				out.Violate("C08", "mechanism-outcome", "CA", "CA expected=%v but %s (err=%v)", e.ca, ok(got.ca), ss.ChipAuthErr)
			}
			paOK := ss.PassiveAuthResult != nil && ss.PassiveAuthResult.Success
			if paOK == s.Untrusted {
				out.Violate("C08", "pa-outcome", fmt.Sprintf("untrusted=%v", s.Untrusted), "issuing chain in trust store=%v but passive authentication success=%v (err=%v)", !s.Untrusted, paOK, ss.PassiveAuthErr)
				out.Violate("C09", "genuine-rejected", profileKey(s), "genuine document, chain in store=%v, PA success=%v: %v", !s.Untrusted, paOK, ss.PassiveAuthErr)
			}
			if ss.DocumentVerifyErr != nil {
				out.Violate("C08", "completeness-check-failed", "Document.Verify", "conforming chip but Document.Verify: %v", ss.DocumentVerifyErr)
			}
			for _, f := range docFiles(&d.Document, r.W) {
				if f.N == 0 || f.Want == nil {
					continue
				}
				if s.SkipImages && (f.N == 2 || f.N == 7) {
					if f.Present {
						out.Violate("C08", "image-read-despite-skip", f.Name, "%s read although image reading was switched off", f.Name)
					}
					continue
				}
				if !f.Present {
					out.Violate("C08", "dg-not-read", f.Name, "%s is listed in the security object and stored on the chip but missing from the result", f.Name)
				}
			}
			if d.Document.Mf.Lds1.Sod == nil || d.Document.Mf.Lds1.Com == nil {
				out.Violate("C08", "dg-not-read", "SOD/COM", "EF.SOD or EF.COM missing from the result")
			}
			if (d.Document.Mf.CardAccess != nil) != (r.W.MF[chip.FidCardAccess] != nil) {
				out.Violate("C08", "dg-not-read", "CardAccess", "EF.CardAccess presence in result=%v, on chip=%v", d.Document.Mf.CardAccess != nil, r.W.MF[chip.FidCardAccess] != nil)
			}
			if s.AAChallenge && e.aa && ss.ActiveAuthResult != nil && ss.ActiveAuthResult.Evidence != nil {
				if !bytes.Equal(ss.ActiveAuthResult.Evidence.Nonce, r.AAChal) {
					out.Violate("C07", "challenge-not-used", "reader", "caller-supplied AA challenge %x but recorded nonce %x", r.AAChal, ss.ActiveAuthResult.Evidence.Nonce)
				}
				found := false
				for _, ch := range r.Chip.Facts.AAChallenges {
					if bytes.Equal(ch, r.AAChal) {
						found = true
					}
				}
				if !found {
					out.Violate("C07", "challenge-not-transmitted", "reader", "caller-supplied AA challenge %x never reached the chip", r.AAChal)
				}
			}
		}
	} else {
		out.Probe("outside_envelope")
	}
	if r.Chip.Facts.SharedSecretsZeros > 0 {
		out.Probe("shared_secret_leading_zero")
	}
	for _, ex := range r.Chip.Log {
		if ex.Action == "read-binary le-above-cap" || ex.Action == "reject-extended" {
			out.Probe("fallback_ladder_used")
			break
		}
	}
	out.Key = fmt.Sprintf("%s|%s|pwd=%s|ca=%s|aa=%s|le=%s|env=%v|%s", accessKey(s), profileKey(s), s.Password, caKey(s), aaKey(s), leKey(s), env, outcome)
	return out
}

func firstParam(s world.WorldSpec) int {
	if len(s.PACE) > 0 {
		return s.PACE[0].ParamID
	}
	return 0
}

func accessKey(s world.WorldSpec) string {
	k := ""
	if s.BAC {
		k += "BAC"
	}
	for _, p := range s.PACE {
		m := "GM"
		if p.CAM {
			m = "CAM"
		}
		k += fmt.Sprintf("+%s-%s-%d", m, p.Suite, p.ParamID)
	}
	if s.SkipPace {
		k += "/skip"
	}
	return k
}

func keyKey(k world.KeySpec, sc world.SchemeSpec) string {
	if k.Kind == "rsa" {
		return fmt.Sprintf("rsa%d-%s-%s", k.Bits, sc.Kind, sc.Hash)
	}
	return fmt.Sprintf("ec%d%v-%s", k.CurveID, k.Explicit, sc.Hash)
}

func profileKey(s world.WorldSpec) string {
	return fmt.Sprintf("csca=%s|ds=%s|dg=%s|sid=%s|v%d|st=%v|ind=%v", keyKey(s.CSCA, s.CSCAScheme), keyKey(s.DS, s.DSScheme), s.DGHash, s.SIDForm, s.LDSVersion, !s.NoSigning, s.Indefinite)
}

func caKey(s world.WorldSpec) string {
	if s.CA == nil {
		return "-"
	}
	return fmt.Sprintf("%d/%v/%v/id=%v/two=%v", s.CA.CurveID, s.CA.Explicit, s.CA.Suites, s.CA.KeyID != nil, s.CA.TwoKeys)
}

func aaKey(s world.WorldSpec) string {
	if s.AA == nil {
		return "-"
	}
	if s.AA.Kind == "rsa" {
		return fmt.Sprintf("rsa%d-%s", s.AA.Bits, s.AA.Hash)
	}
	return fmt.Sprintf("ec%d-der=%v", s.AA.CurveID, s.AA.DER)
}

func leKey(s world.WorldSpec) string {
	c := "<=256"
	if s.MaxLe > 256 {
		c = ">256"
	}
	return fmt.Sprintf("%s/ext=%v/cap=%v/short=%s/maxresp=%v", c, s.B.ExtLen, s.B.LeCap > 0, s.B.ShortMode, s.B.MaxResp > 0)
}
