package engines

import (
	"bytes"
	"encoding/json"
	"fmt"
	"math/big"
	"reflect"
	"runtime"

	"github.com/gmrtd/gmrtd/document"
	"github.com/gmrtd/gmrtd/verifier"

	"verif/sim/chip"
	"verif/sim/core"
	"verif/sim/store"
	"verif/sim/term"
	"verif/sim/world"
)

// store engines: live session -> ToCbor -> SimStore -> verifier.Verify.
//   StoreVerifyEngine  (C14): offline verdicts reproduce live ones; byzantine rewrite of each evidence field / file.
//   StoreCorruptEngine (C15): round trip; every byte substitution, truncation, extension of the blob.

func docFileMap(d *document.Document) map[string][]byte {
	m := map[string][]byte{}
	put := func(k string, ok bool, f func() []byte) {
		if ok {
			m[k] = f()
		}
	}
	mf, l := d.Mf, d.Mf.Lds1
	put("cardAccess", mf.CardAccess != nil, func() []byte { return mf.CardAccess.RawData })
	put("cardSecurity", mf.CardSecurity != nil, func() []byte { return mf.CardSecurity.RawData })
	put("dir", mf.Dir != nil, func() []byte { return mf.Dir.RawData })
	put("com", l.Com != nil, func() []byte { return l.Com.RawData })
	put("sod", l.Sod != nil, func() []byte { return l.Sod.RawData })
	put("dg1", l.Dg1 != nil, func() []byte { return l.Dg1.RawData })
	put("dg2", l.Dg2 != nil, func() []byte { return l.Dg2.RawData })
	put("dg7", l.Dg7 != nil, func() []byte { return l.Dg7.RawData })
	put("dg11", l.Dg11 != nil, func() []byte { return l.Dg11.RawData })
	put("dg12", l.Dg12 != nil, func() []byte { return l.Dg12.RawData })
	put("dg13", l.Dg13 != nil, func() []byte { return l.Dg13.RawData })
	put("dg14", l.Dg14 != nil, func() []byte { return l.Dg14.RawData })
	put("dg15", l.Dg15 != nil, func() []byte { return l.Dg15.RawData })
	put("dg16", l.Dg16 != nil, func() []byte { return l.Dg16.RawData })
	return m
}

func evidenceOf(s *document.Session) store.Evidence {
	var ev store.Evidence
	if s.PaceCamResult != nil && s.PaceCamResult.Evidence != nil {
		e := s.PaceCamResult.Evidence
		ev.PaceCam = &store.PaceCam{PaceOid: []int(e.PaceOid), ParameterId: e.ParameterId, Nonce: e.Nonce, TermMapPri: e.TermMapPri, TermMapPub: e.TermMapPub,
			ChipMapPub: e.ChipMapPub, TermKaPri: e.TermKaPri, TermKaPub: e.TermKaPub, ChipKaPub: e.ChipKaPub, EcadIC: e.EcadIC}
	}
	if s.ChipAuthResult != nil && s.ChipAuthResult.Evidence != nil {
		e := s.ChipAuthResult.Evidence
		ev.CA = &store.CA{TermPri: e.TermPri, TermPubKey: e.TermPubKey, SmRapdu: e.SmRapdu, SmSsc: e.SmSsc}
	}
	if s.ActiveAuthResult != nil && s.ActiveAuthResult.Evidence != nil {
		e := s.ActiveAuthResult.Evidence
		ev.AA = &store.AA{Algorithm: []int(e.Algorithm), Nonce: e.Nonce, Signature: e.Signature}
	}
	return ev
}

type verdicts struct {
	Err              bool
	PA, Verify       bool
	CA, CAM, AA      bool
	HasCA, HasCAM    bool
	HasAA            bool
	Trusted          bool
	ChipAuthenticity int
}

func verdictsOf(d *document.DocumentEx) verdicts {
	var v verdicts
	if d == nil {
		v.Err = true
		return v
	}
	s := d.Session
	v.PA = s.PassiveAuthResult != nil && s.PassiveAuthResult.Success
	v.Verify = s.DocumentVerifyErr == nil
	v.HasCA, v.CA = s.ChipAuthResult != nil, s.ChipAuthResult != nil && s.ChipAuthResult.Success
	v.HasCAM, v.CAM = s.PaceCamResult != nil, s.PaceCamResult != nil && s.PaceCamResult.Success
	v.HasAA, v.AA = s.ActiveAuthResult != nil, s.ActiveAuthResult != nil && s.ActiveAuthResult.Success
	sum := d.Summary()
	v.Trusted, v.ChipAuthenticity = sum.DataTrusted, int(sum.ChipAuthenticity)
	return v
}

var dbgPanic bool

// verifyBlob runs the offline verifier with panic and allocation monitors.
func verifyBlob(out *core.Outcome, w *world.World, blob []byte, aaChal []byte, what string) (*document.DocumentEx, error, bool) {
	var d *document.DocumentEx
	var err error
	var pan any
	var m0, m1 runtime.MemStats
	runtime.ReadMemStats(&m0)
	func() {
		defer func() {
			if dbgPanic {
				return
			}
			pan = recover()
		}()
		term.ArmStepBound(20000000)
		defer term.DisarmStepBound()
		v := verifier.NewVerifier(w.Pool)
		if aaChal != nil {
			if _, e := v.WithAAChallenge(aaChal); e != nil {
				err = e
				return
			}
		}
		d, err = v.Verify(blob)
	}()
	runtime.ReadMemStats(&m1)
	if pan == term.StepBoundExceeded {
		out.Violate("C12", "no-termination", "verify/"+what, "verifier.Verify does not return within 20 000 000 logging steps on a stored blob (%s)", what)
		return nil, fmt.Errorf("no termination"), true
	}
	if pan != nil {
		out.Violate("C12", "panic-in-verify", what, "verifier.Verify panicked on a stored blob (%s): %v", what, pan)
		return nil, fmt.Errorf("panic: %v", pan), true
	}
	if dlt := m1.TotalAlloc - m0.TotalAlloc; dlt > 64<<20+uint64(len(blob))*4096 {
		out.Violate("C12", "alloc-out-of-proportion", "verify/"+what, "verifier.Verify allocated %d bytes for a %d-byte blob (%s)", dlt, len(blob), what)
	}
	if d != nil {
		trustInvariant(out, d, "offline")
	}
	return d, err, false
}

// ------------------------------------------------------------------ C14

type StoreVerifyCase struct {
	Spec world.WorldSpec `json:"spec"`
}

type StoreVerifyEngine struct{}

func (StoreVerifyEngine) Name() string { return "store-verify" }
func (StoreVerifyEngine) Decode(raw json.RawMessage) (any, error) {
	var c StoreVerifyCase
	err := json.Unmarshal(raw, &c)
	return c, err
}

func genEvidenceWorld(rng *core.Rng, i int) world.WorldSpec {
	s := genWorld(rng, i, true)
	s.B = chip.DefaultBehaviour()
	s.MaxLe = 256
	s.SkipPace, s.SkipImages = false, false
	s.DGs = []int{1, 2}
	s.DG2Size = 60
	s.EACDGs = nil
	s.Untrusted = rng.Chance(1, 8)
	switch i % 4 {
	case 0: // CA
		s.AA = nil
		ca := &world.CASpec{CurveID: chip.AllParamIDs[(i/4)%11], Explicit: rng.Bool()}
		if rng.Chance(3, 4) {
			ca.Suites = []string{allSuites[(i/44)%4]}
		}
		if rng.Bool() {
			id := int64(rng.Range(0, 40))
			ca.KeyID = &id
		}
		s.CA = ca
		if i%4 == 0 && len(s.PACE) > 0 {
			for j := range s.PACE {
				s.PACE[j].CAM = false
			}
			if !s.BAC && s.Password != "can" {
				s.BAC = true
			}
		}
	case 1: // PACE-CAM
		s.AA, s.CA = nil, nil
		s.PACE = []world.PaceSpec{{Suite: aesSuites[(i/4)%3], CAM: true, ParamID: chip.AllParamIDs[(i/12)%11]}}
		if s.Password == "dg1" {
			s.Password = "mrz"
		}
	case 2: // AA RSA
		s.CA = nil
		for j := range s.PACE {
			s.PACE[j].CAM = false
		}
		s.AA = &world.AASpec{Kind: "rsa", Bits: core.Pick(rng, []int{1024, 1280, 1536, 2048, 3072, 4096}), Hash: core.Pick(rng, []string{"SHA1", "SHA224", "SHA256", "SHA384", "SHA512"}), M1: core.Pick(rng, []string{"random", "zero", "ff", "leadzero"})}
		if s.AA.Bits > 2048 {
			// signatures of 384 / 512 octets need an extended-length INTERNAL AUTHENTICATE
			s.MaxLe = 1024
		}
	case 3: // AA ECDSA
		s.CA = nil
		for j := range s.PACE {
			s.PACE[j].CAM = false
		}
		s.AA = &world.AASpec{Kind: "ec", CurveID: chip.AllParamIDs[(i/4)%11], Explicit: rng.Bool(), DER: rng.Chance(1, 4)}
	}
	if (i%4 == 0 || i%4 == 1) && rng.Chance(1, 3) {
		// a second mechanism next to PACE-CAM / CA: the reader runs Active Authentication as well
		if rng.Bool() {
			s.AA = &world.AASpec{Kind: "rsa", Bits: core.Pick(rng, []int{1024, 1536, 2048}), Hash: core.Pick(rng, []string{"SHA1", "SHA256", "SHA512"}), M1: "random"}
		} else {
			s.AA = &world.AASpec{Kind: "ec", CurveID: core.Pick(rng, chip.AllParamIDs), Explicit: rng.Bool()}
		}
	}
	// clearing the CAM flag may have produced duplicate PACE infos
	var uniq []world.PaceSpec
	for _, p := range s.PACE {
		dup := false
		for _, q := range uniq {
			if q == p {
				dup = true
			}
		}
		if !dup {
			uniq = append(uniq, p)
		}
	}
	s.PACE = uniq
	if len(s.PACE) == 0 && !s.BAC {
		s.BAC = true
	}
	if len(s.PACE) == 0 && s.Password == "can" {
		s.Password = "mrz"
	}
	return s
}

func (StoreVerifyEngine) Gen(prop, tier string, seed uint64, yield func(c any) bool) {
	n := 480
	if tier == "thorough" {
		n = 30000
	}
	if prop != "C14" {
		n /= 4 // secondary role (offline path for C01, crash monitors for C12)
	}
	rng := core.NewRng(core.SubSeed(seed, "store-verify", tier))
	if prop == "C07" {
		// offline nonce binding: Active Authentication worlds only, the caller always supplies the challenge
		n = 64
		if tier == "thorough" {
			n = 8000
		}
		for i := 0; i < n; i++ {
			s := genEvidenceWorld(rng, 4*(i/2)+2+i%2)
			s.AAChallenge = true
			if !yield(StoreVerifyCase{Spec: s}) {
				return
			}
		}
		return
	}
	for i := 0; i < n; i++ {
		if !yield(StoreVerifyCase{Spec: genEvidenceWorld(rng, i)}) {
			return
		}
	}
}

func (StoreVerifyEngine) Shrink(ci any) []any {
	c := ci.(StoreVerifyCase)
	var out []any
	for _, y := range (E2EEngine{}).Shrink(E2ECase{Spec: c.Spec, Envelope: true}) {
		out = append(out, StoreVerifyCase{Spec: y.(E2ECase).Spec})
	}
	return out
}

func flipFirst(b []byte) []byte {
	o := bytes.Clone(b)
	if len(o) > 0 {
		o[0] ^= 0x01
	}
	return o
}

func flipLast(b []byte) []byte {
	o := bytes.Clone(b)
	if len(o) > 0 {
		o[len(o)-1] ^= 0x80
	}
	return o
}

func flipMid(b []byte) []byte {
	o := bytes.Clone(b)
	if len(o) > 0 {
		o[len(o)/2] ^= 0x10
	}
	return o
}

func plusOne(b []byte) []byte {
	v := new(big.Int).SetBytes(b)
	v.Add(v, big.NewInt(1))
	o := make([]byte, len(b))
	if len(v.Bytes()) > len(b) {
		return flipLast(b)
	}
	v.FillBytes(o)
	return o
}

func minusOne(b []byte) []byte {
	v := new(big.Int).SetBytes(b)
	if v.Sign() == 0 {
		return bytes.Repeat([]byte{0xFF}, len(b))
	}
	v.Sub(v, big.NewInt(1))
	o := make([]byte, len(b))
	v.FillBytes(o)
	return o
}

// otherPoint returns a valid point on the curve different from p (a multiple of the generator).
func otherPoint(paramID int, p []byte, k int64) []byte {
	c := chip.CurveByParamID(paramID)
	if c == nil {
		return flipLast(p)
	}
	for {
		x, y := c.ScalarBaseMult(big.NewInt(k).Bytes())
		q := chip.EncodePoint(c, x, y)
		if !bytes.Equal(q, p) {
			return q
		}
		k++
	}
}

type tamper struct {
	name string
	mech string // CA | CAM | AA
	mut  func(ev *store.Evidence)
	// allowAccept: the documented exception
	allowAccept bool
}

func cloneEvidence(ev store.Evidence) store.Evidence {
	var o store.Evidence
	if ev.PaceCam != nil {
		c := *ev.PaceCam
		c.PaceOid = append([]int{}, c.PaceOid...)
		o.PaceCam = &c
	}
	if ev.CA != nil {
		c := *ev.CA
		o.CA = &c
	}
	if ev.AA != nil {
		c := *ev.AA
		c.Algorithm = append([]int{}, c.Algorithm...)
		o.AA = &c
	}
	return o
}

func octetTampers(mech, field string, get func(ev *store.Evidence) *[]byte, scalar bool) []tamper {
	ts := []tamper{
		{field + ":flip-first", mech, func(ev *store.Evidence) { *get(ev) = flipFirst(*get(ev)) }, false},
		{field + ":flip-last", mech, func(ev *store.Evidence) { *get(ev) = flipLast(*get(ev)) }, false},
		{field + ":flip-mid", mech, func(ev *store.Evidence) { *get(ev) = flipMid(*get(ev)) }, false},
		{field + ":empty", mech, func(ev *store.Evidence) { *get(ev) = nil }, false},
		{field + ":oversized-1025", mech, func(ev *store.Evidence) { *get(ev) = bytes.Repeat([]byte{0xFF}, 1025) }, false},
		{field + ":oversized-5000", mech, func(ev *store.Evidence) { *get(ev) = bytes.Repeat([]byte{0x7F}, 5000) }, false},
		{field + ":one-byte", mech, func(ev *store.Evidence) { *get(ev) = []byte{0x04} }, false},
	}
	if scalar {
		ts = append(ts, tamper{field + ":zero", mech, func(ev *store.Evidence) { *get(ev) = make([]byte, len(*get(ev))) }, false})
		ts = append(ts, tamper{field + ":plus-one", mech, func(ev *store.Evidence) { *get(ev) = plusOne(*get(ev)) }, false},
			tamper{field + ":minus-one", mech, func(ev *store.Evidence) { *get(ev) = minusOne(*get(ev)) }, false})
	}
	return ts
}

func (StoreVerifyEngine) Run(prop string, ci any) *core.Outcome {
	c := ci.(StoreVerifyCase)
	out := &core.Outcome{}
	r := runRead(c.Spec, nil, out, nil)
	out.Exchanges = r.Link.N
	if r.Panic != nil || r.Err != nil || r.Doc == nil {
		out.Discarded = "live-read-failed"
		out.Violate("C08", "read-failed-in-envelope", "store-engine", "live read failed: %v %v", r.Err, r.Panic)
		out.Fingerprint = r.Link.Log.Fingerprint()
		return out
	}
	log := r.Link.Log
	live := verdictsOf(r.Doc)
	blob, err := r.Doc.ToCbor()
	if err != nil {
		out.Violate("C15", "export-failed", "DocumentEx.ToCbor", "ToCbor failed on a live result: %v", err)
		return out
	}
	log.Add("store.write", blob)
	sig := fmt.Sprintf("%s|%s", caKey(c.Spec), aaKey(c.Spec))
	// --- untampered: offline verdicts reproduce the live ones
	off, verr, pan := verifyBlob(out, r.W, blob, r.AAChal, "genuine blob")
	if pan {
		out.Violate("C14", "panic", "genuine", "Verify panicked on a genuine blob")
		return out
	}
	if verr != nil || off == nil {
		out.Violate("C14", "genuine-blob-rejected", sig, "offline verification of a genuine capture failed: %v", verr)
		return out
	}
	ov := verdictsOf(off)
	log.Add("verify", []byte(fmt.Sprintf("%+v", ov)))
	if ov.PA != live.PA {
		out.Violate("C14", "verdict-differs", "PA", "passive authentication live=%v offline=%v (offline err: %v)", live.PA, ov.PA, off.Session.PassiveAuthErr)
	}
	if ov.Verify != live.Verify {
		out.Violate("C14", "verdict-differs", "completeness", "completeness check live ok=%v offline ok=%v", live.Verify, ov.Verify)
	}
	if live.CA != ov.CA {
		out.Violate("C14", "verdict-differs", "CA/"+caKey(c.Spec), "chip authentication live=%v offline=%v (offline err: %v)", live.CA, ov.CA, off.Session.ChipAuthErr)
	}
	if live.CAM != ov.CAM {
		out.Violate("C14", "verdict-differs", fmt.Sprintf("CAM/param=%d", firstParam(c.Spec)), "PACE-CAM live=%v offline=%v (offline err: %v)", live.CAM, ov.CAM, off.Session.PaceErr)
	}
	if live.AA != ov.AA {
		out.Violate("C14", "verdict-differs", "AA/"+aaKey(c.Spec), "active authentication live=%v offline=%v (offline err: %v)", live.AA, ov.AA, off.Session.ActiveAuthErr)
	}
	// supplied challenge binding (C07): a different challenge must hard-fail when AA evidence exists
	if live.HasAA {
		other := bytes.Clone(r.Doc.Session.ActiveAuthResult.Evidence.Nonce)
		other[3] ^= 0x20
		d2, e2, _ := verifyBlob(out, r.W, blob, other, "other challenge")
		if e2 == nil || d2 != nil {
			out.Violate("C07", "nonce-binding", "verifier", "offline verification with a supplied challenge different from the recorded nonce did not hard-fail")
		}
		d3, e3, _ := verifyBlob(out, r.W, blob, r.Doc.Session.ActiveAuthResult.Evidence.Nonce, "same challenge")
		if e3 != nil || d3 == nil {
			out.Violate("C07", "nonce-binding", "verifier-same", "offline verification with the recorded nonce as supplied challenge failed: %v", e3)
		}
	}
	// --- byzantine store: own encoder must first reproduce the genuine verdicts (harness self-check)
	files := docFileMap(&r.Doc.Document)
	ev := evidenceOf(&r.Doc.Session)
	own := store.EncodeVerifiable(files, ev)
	d0, e0, _ := verifyBlob(out, r.W, own, nil, "re-encoded genuine")
	if e0 != nil || d0 == nil || verdictsOf(d0) != ov {
		out.Discarded = "harness: own CBOR encoder does not reproduce the genuine verdicts"
		out.Violate("HARNESS", "encoder", "store", "own encoder blob: err=%v", e0)
		return out
	}
	var ts []tamper
	if ev.CA != nil && live.CA {
		ts = append(ts, octetTampers("CA", "ca.termPri", func(e *store.Evidence) *[]byte { return &e.CA.TermPri }, true)...)
		ts = append(ts, octetTampers("CA", "ca.termPubKey", func(e *store.Evidence) *[]byte { return &e.CA.TermPubKey }, false)...)
		ts = append(ts, octetTampers("CA", "ca.smRapdu", func(e *store.Evidence) *[]byte { return &e.CA.SmRapdu }, false)...)
		ts = append(ts, octetTampers("CA", "ca.smSsc", func(e *store.Evidence) *[]byte { return &e.CA.SmSsc }, true)...)
		ts = append(ts, tamper{"ca.smSsc:oversized-17", "CA", func(e *store.Evidence) { e.CA.SmSsc = bytes.Repeat([]byte{0xFF}, 17) }, false},
			tamper{"ca.smSsc:oversized-9", "CA", func(e *store.Evidence) { e.CA.SmSsc = bytes.Repeat([]byte{0xFF}, 9) }, false},
			tamper{"ca.keypair:other-consistent", "CA", func(e *store.Evidence) {
				cid := c.Spec.CA.CurveID
				cv := chip.CurveByParamID(cid)
				k := big.NewInt(424242)
				x, y := cv.ScalarBaseMult(k.Bytes())
				e.CA.TermPri = k.Bytes()
				e.CA.TermPubKey = chip.EncodePoint(cv, x, y)
			}, false},
			tamper{"ca.termPubKey:other-valid-point", "CA", func(e *store.Evidence) { e.CA.TermPubKey = otherPoint(c.Spec.CA.CurveID, e.CA.TermPubKey, 7) }, false},
			tamper{"ca.termPubKey:negated", "CA", func(e *store.Evidence) { e.CA.TermPubKey = negPoint(c.Spec.CA.CurveID, e.CA.TermPubKey) }, false},
			tamper{"ca:dropped", "CA", func(e *store.Evidence) { e.CA = nil }, false})
	}
	if ev.PaceCam != nil && live.CAM {
		pid := ev.PaceCam.ParameterId
		g := func(f func(p *store.PaceCam) *[]byte) func(e *store.Evidence) *[]byte {
			return func(e *store.Evidence) *[]byte { return f(e.PaceCam) }
		}
		ts = append(ts, octetTampers("CAM", "cam.nonce", g(func(p *store.PaceCam) *[]byte { return &p.Nonce }), true)...)
		ts = append(ts, octetTampers("CAM", "cam.termMapPri", g(func(p *store.PaceCam) *[]byte { return &p.TermMapPri }), true)...)
		ts = append(ts, octetTampers("CAM", "cam.termMapPub", g(func(p *store.PaceCam) *[]byte { return &p.TermMapPub }), false)...)
		ts = append(ts, octetTampers("CAM", "cam.chipMapPub", g(func(p *store.PaceCam) *[]byte { return &p.ChipMapPub }), false)...)
		ts = append(ts, octetTampers("CAM", "cam.termKaPri", g(func(p *store.PaceCam) *[]byte { return &p.TermKaPri }), true)...)
		ts = append(ts, octetTampers("CAM", "cam.termKaPub", g(func(p *store.PaceCam) *[]byte { return &p.TermKaPub }), false)...)
		ts = append(ts, octetTampers("CAM", "cam.chipKaPub", g(func(p *store.PaceCam) *[]byte { return &p.ChipKaPub }), false)...)
		ts = append(ts, octetTampers("CAM", "cam.ecadIC", g(func(p *store.PaceCam) *[]byte { return &p.EcadIC }), false)...)
		ts = append(ts,
			tamper{"cam.chipMapPub:other-valid-point", "CAM", func(e *store.Evidence) { e.PaceCam.ChipMapPub = otherPoint(pid, e.PaceCam.ChipMapPub, 5) }, false},
			tamper{"cam.chipKaPub:other-valid-point", "CAM", func(e *store.Evidence) { e.PaceCam.ChipKaPub = otherPoint(pid, e.PaceCam.ChipKaPub, 9) }, false},
			tamper{"cam.termMapPub:other-valid-point", "CAM", func(e *store.Evidence) { e.PaceCam.TermMapPub = otherPoint(pid, e.PaceCam.TermMapPub, 11) }, false},
			tamper{"cam.termKaPub:other-valid-point", "CAM", func(e *store.Evidence) { e.PaceCam.TermKaPub = otherPoint(pid, e.PaceCam.TermKaPub, 13) }, false},
			tamper{"cam.chipMapPub:negated", "CAM", func(e *store.Evidence) { e.PaceCam.ChipMapPub = negPoint(pid, e.PaceCam.ChipMapPub) }, false},
			tamper{"cam.chipKaPub:negated", "CAM", func(e *store.Evidence) { e.PaceCam.ChipKaPub = negPoint(pid, e.PaceCam.ChipKaPub) }, false},
			tamper{"cam.termMapPub:negated", "CAM", func(e *store.Evidence) { e.PaceCam.TermMapPub = negPoint(pid, e.PaceCam.TermMapPub) }, false},
			tamper{"cam.termKaPub:negated", "CAM", func(e *store.Evidence) { e.PaceCam.TermKaPub = negPoint(pid, e.PaceCam.TermKaPub) }, false},
			tamper{"cam.parameterId:plus-256", "CAM", func(e *store.Evidence) { e.PaceCam.ParameterId = pid + 256 }, false},
			tamper{"cam.parameterId:plus-65536", "CAM", func(e *store.Evidence) { e.PaceCam.ParameterId = pid + 65536 }, false},
			tamper{"cam.parameterId:other-curve", "CAM", func(e *store.Evidence) {
				e.PaceCam.ParameterId = 8 + (pid-8+1)%11
			}, false},
			tamper{"cam.parameterId:invalid", "CAM", func(e *store.Evidence) { e.PaceCam.ParameterId = 99 }, false},
			tamper{"cam.parameterId:negative", "CAM", func(e *store.Evidence) { e.PaceCam.ParameterId = -1 }, false},
			tamper{"cam.paceOid:other-cam-suite", "CAM", func(e *store.Evidence) {
				o := e.PaceCam.PaceOid
				o[len(o)-1] = 2 + (o[len(o)-1]-2+1)%3
			}, false},
			tamper{"cam.paceOid:gm", "CAM", func(e *store.Evidence) { e.PaceCam.PaceOid = chip.PaceOID(chip.AES128, false) }, false},
			tamper{"cam.paceOid:unknown", "CAM", func(e *store.Evidence) { e.PaceCam.PaceOid = []int{1, 2, 3, 4} }, false},
			tamper{"cam.paceOid:empty", "CAM", func(e *store.Evidence) { e.PaceCam.PaceOid = nil }, false},
			tamper{"cam:dropped", "CAM", func(e *store.Evidence) { e.PaceCam = nil }, false})
	}
	if ev.AA != nil && live.AA {
		ts = append(ts, octetTampers("AA", "aa.nonce", func(e *store.Evidence) *[]byte { return &e.AA.Nonce }, true)...)
		ts = append(ts, octetTampers("AA", "aa.signature", func(e *store.Evidence) *[]byte { return &e.AA.Signature }, false)...)
		ts = append(ts,
			tamper{"aa.algorithm:other-registered", "AA", func(e *store.Evidence) {
				if len(e.AA.Algorithm) == 7 && e.AA.Algorithm[6] == 1 && e.AA.Algorithm[0] == 1 && e.AA.Algorithm[4] == 1 { // rsaEncryption -> ecPublicKey
					e.AA.Algorithm = []int{1, 2, 840, 10045, 2, 1}
				} else {
					e.AA.Algorithm = []int{1, 2, 840, 113549, 1, 1, 1}
				}
			}, false},
			tamper{"aa.algorithm:unknown", "AA", func(e *store.Evidence) { e.AA.Algorithm = []int{1, 3, 6, 1, 4, 1, 99999, 5} }, false},
			tamper{"aa.algorithm:empty", "AA", func(e *store.Evidence) { e.AA.Algorithm = nil }, false},
			tamper{"aa.signature:oversized-4097", "AA", func(e *store.Evidence) { e.AA.Signature = bytes.Repeat([]byte{0x55}, 4097) }, false},
			tamper{"aa:dropped", "AA", func(e *store.Evidence) { e.AA = nil }, false})
		if k := r.W.AAKey; k != nil && k.N != nil {
			// signatures a key holder can produce whose recoverable message is short / oddly framed
			for a := 0; a < 8; a++ {
				for b := 0; b < 8; b++ {
					a2, b2 := a+8*((a+b)%3), b
					ts = append(ts, tamper{fmt.Sprintf("aa.signature:crafted-f-%d-%d", a2, b2), "AA", func(e *store.Evidence) { e.AA.Signature = CraftRSAF(k, a2, b2) }, false})
				}
			}
		}
	}
	for _, t := range ts {
		e2 := cloneEvidence(ev)
		t.mut(&e2)
		b2 := store.EncodeVerifiable(files, e2)
		log.Add("store.rewrite", []byte(t.name))
		out.Fault("rewrite_" + t.mech)
		d, e, pan := verifyBlob(out, r.W, b2, nil, "evidence "+t.name)
		if pan {
			out.Violate("C14", "panic-on-tampered-evidence", t.name, "verifier.Verify panicked on tampered evidence %s", t.name)
			continue
		}
		if e != nil || d == nil {
			continue // hard error: verdict not successful
		}
		v := verdictsOf(d)
		bad := (t.mech == "CA" && v.CA) || (t.mech == "CAM" && v.CAM) || (t.mech == "AA" && v.AA)
		if bad && t.name == "ca.smSsc:empty" && new(big.Int).SetBytes(ev.CA.SmSsc).Cmp(big.NewInt(2)) == 0 {
			// an absent counter is the documented default for a probe sent right after the key switch:
			// it denotes the same counter value (2), i.e. the value did not change
			out.Probe("smssc_absent_denotes_same_counter")
			bad = false
		}
		if bad {
			out.Violate("C14", "tampered-evidence-accepted", t.name, "evidence field rewritten (%s) in the store, envelope checksums recomputed, and the %s verdict is still successful", t.name, t.mech)
		}
	}
	// the same kind of change made through the library's own exporter (result object edited, then ToCbor): integer fields
	// must not be narrowed on the way (13+256 must not come back as 13)
	if pc := r.Doc.Session.PaceCamResult; pc != nil && pc.Evidence != nil && live.CAM {
		orig := pc.Evidence.ParameterId
		for _, dlt := range []int{256, 512, 65536, -256, 1 << 32, -(1 << 32)} {
			pc.Evidence.ParameterId = orig + dlt
			b2, xerr := r.Doc.ToCbor()
			pc.Evidence.ParameterId = orig
			if xerr != nil {
				out.Probe("export_refuses_out_of_range_parameter_id")
				continue
			}
			out.Fault("rewrite_CAM_via_exporter")
			name := fmt.Sprintf("cam.parameterId:%+d(exported by the library)", dlt)
			d, e, pan := verifyBlob(out, r.W, b2, nil, "evidence "+name)
			if pan {
				out.Violate("C14", "panic-on-tampered-evidence", name, "verifier.Verify panicked on tampered evidence %s", name)
				continue
			}
			if e == nil && d != nil && verdictsOf(d).CAM {
				out.Violate("C14", "tampered-evidence-accepted", name, "parameter id changed from %d to %d in the result object, exported with ToCbor, and the PACE-CAM verdict is still successful", orig, orig+dlt)
			}
		}
	}
	// offline nonce binding (C07): with a caller-supplied challenge, verification hard-fails whenever the recorded nonce
	// differs from it - whether or not the rest of the evidence still verifies
	if ev.AA != nil && live.AA && len(ev.AA.Nonce) == 8 {
		orig := bytes.Clone(ev.AA.Nonce)
		if d, e, _ := verifyBlob(out, r.W, store.EncodeVerifiable(files, ev), orig, "aa genuine, own challenge"); e != nil || d == nil || !verdictsOf(d).AA {
			out.Violate("C07", "offline-own-challenge-rejected", aaKey(c.Spec), "genuine AA evidence verified offline with the very challenge that was sent is not accepted: %v", e)
		}
		type nb struct {
			name  string
			nonce []byte // recorded nonce after the rewrite
			chal  []byte // challenge supplied to the verifier
			sig   bool   // signature broken as well
		}
		other := flipLast(orig)
		cases := []nb{
			{"other-challenge", orig, other, false},
			{"other-challenge-first-bit", orig, flipFirst(orig), false},
			{"nonce-rewritten-flip-first", flipFirst(orig), orig, false},
			{"nonce-rewritten-flip-last", flipLast(orig), orig, false},
			{"nonce-rewritten-zero", make([]byte, 8), orig, false},
			{"nonce-truncated-7", orig[:7], orig, false},
			{"nonce-extended-9", append(bytes.Clone(orig), 0), orig, false},
			{"nonce-empty", nil, orig, false},
			{"nonce-rewritten-and-signature-broken", flipMid(orig), orig, true},
			{"other-challenge-and-signature-broken", orig, other, true},
		}
		for _, x := range cases {
			if bytes.Equal(x.nonce, x.chal) {
				continue
			}
			e2 := cloneEvidence(ev)
			e2.AA.Nonce = bytes.Clone(x.nonce)
			if x.sig {
				e2.AA.Signature = flipMid(e2.AA.Signature)
			}
			out.Fault("rewrite_AA_nonce_binding")
			d, e, pan := verifyBlob(out, r.W, store.EncodeVerifiable(files, e2), x.chal, "aa nonce binding "+x.name)
			if pan {
				out.Violate("C07", "panic", "offline/"+x.name, "verifier.Verify panicked (%s)", x.name)
				continue
			}
			if e == nil && d != nil {
				out.Violate("C07", "offline-nonce-mismatch-not-hard-failed", x.name, "recorded nonce %x, supplied challenge %x (%s): Verify returned a result instead of a hard error (AA verdict success=%v, ActiveAuthErr=%v)", x.nonce, x.chal, x.name, verdictsOf(d).AA, d.Session.ActiveAuthErr)
			}
		}
	}
	// the documented joint replacement of chip agreement key + encrypted chip authentication data
	if ev.PaceCam != nil && live.CAM {
		if e2, ok := camJointReplacement(ev); ok {
			b2 := store.EncodeVerifiable(files, e2)
			d, e, _ := verifyBlob(out, r.W, b2, nil, "cam joint replacement")
			if e == nil && d != nil && verdictsOf(d).CAM {
				out.Probe("cam_joint_replacement_accepted_documented_exception")
			} else {
				out.Probe("cam_joint_replacement_rejected")
			}
		}
	}
	// --- document files rewritten in the store
	must := []string{"dg1", "dg2", "dg7", "dg11", "dg12", "dg13", "dg14", "dg15", "dg16"}
	frng := core.NewRng(core.SubSeed(c.Spec.Seed, "filemut"))
	for _, k := range must {
		f, ok := files[k]
		if !ok || !live.PA {
			continue
		}
		for rep := 0; rep < 3; rep++ {
			f2 := bytes.Clone(f)
			pos := frng.Intn(len(f2))
			f2[pos] ^= byte(1 << uint(frng.Intn(8)))
			files2 := map[string][]byte{}
			for kk, vv := range files {
				files2[kk] = vv
			}
			files2[k] = f2
			out.Fault("rewrite_file")
			d, e, pan := verifyBlob(out, r.W, store.EncodeVerifiable(files2, ev), nil, "file "+k)
			if pan || e != nil || d == nil {
				continue
			}
			if verdictsOf(d).PA {
				out.Violate("C14", "tampered-file-accepted", k, "%s byte %d modified in the store and passive authentication still succeeds", k, pos)
				out.Violate("C01", "tampered-dg-accepted", k, "%s byte %d modified and passive authentication still succeeds (offline path)", k, pos)
			}
		}
	}
	// files withheld by the store while their evidence is kept
	for _, dk := range []struct{ file, mech string }{{"dg14", "CA"}, {"dg15", "AA"}, {"cardSecurity", "CAM"}, {"sod", "PA"}, {"dg1", "PA"}} {
		if _, ok := files[dk.file]; !ok {
			continue
		}
		files2 := map[string][]byte{}
		for kk, vv := range files {
			if kk != dk.file {
				files2[kk] = vv
			}
		}
		out.Fault("withheld_file")
		d, e, pan := verifyBlob(out, r.W, store.EncodeVerifiable(files2, ev), nil, "withheld "+dk.file)
		if pan {
			out.Violate("C14", "panic-on-withheld-file", dk.file, "verifier.Verify panicked on a blob without %s", dk.file)
			continue
		}
		if e != nil || d == nil {
			continue
		}
		v := verdictsOf(d)
		if (dk.mech == "CA" && v.CA && live.CA) || (dk.mech == "AA" && v.AA && live.AA) || (dk.mech == "CAM" && v.CAM && live.CAM) || (dk.mech == "PA" && v.Trusted) {
			out.Violate("C14", "verdict-without-file", dk.file, "%s removed from the stored document and the %s verdict is still successful", dk.file, dk.mech)
		}
	}
	if sod, ok := files["sod"]; ok && live.PA {
		for _, region := range []string{"eContent", "signedAttrs", "dsTBS"} {
			rg, ok := r.W.SOD.Regions[region]
			if !ok {
				continue
			}
			f2 := bytes.Clone(sod)
			off := len(sod) - len(r.W.SOD.DER) // the 0x77 wrapper header
			pos := off + rg.Off + frng.Intn(rg.Len)
			f2[pos] ^= byte(1 << uint(frng.Intn(8)))
			files2 := map[string][]byte{}
			for kk, vv := range files {
				files2[kk] = vv
			}
			files2["sod"] = f2
			out.Fault("rewrite_file")
			d, e, pan := verifyBlob(out, r.W, store.EncodeVerifiable(files2, ev), nil, "sod "+region)
			if pan || e != nil || d == nil {
				continue
			}
			if verdictsOf(d).PA {
				out.Violate("C14", "tampered-file-accepted", "sod/"+region, "EF.SOD byte %d (%s) modified in the store and passive authentication still succeeds", pos, region)
				out.Violate("C01", "tampered-sod-accepted", region, "EF.SOD byte %d (%s) modified and passive authentication still succeeds (offline path)", pos, region)
			}
		}
	}
	if ca, ok := files["cardAccess"]; ok && files["dg14"] != nil && live.Verify {
		// Flip one bit of the last octet (inside the last SecurityInfo's value). The completeness verdict is a
		// containment test against DG14, so the changed info must not coincide with another info that DG14
		// genuinely lists (two PACE infos differing in the parameter id only: 0x0b^1 = 0x0a).
		var f2 []byte
		for _, mask := range []byte{0x01, 0x02, 0x04, 0x08, 0x10, 0x20, 0x40} {
			t := bytes.Clone(ca)
			t[len(t)-1] ^= mask
			if cardAccessOutsideDG14(t, files["dg14"]) {
				f2 = t
				break
			}
			out.Probe("cardaccess-tamper-coincides-with-dg14-info")
		}
		if len(f2) > 8 {
			files2 := map[string][]byte{}
			for kk, vv := range files {
				files2[kk] = vv
			}
			files2["cardAccess"] = f2
			out.Fault("rewrite_file")
			d, e, pan := verifyBlob(out, r.W, store.EncodeVerifiable(files2, ev), nil, "cardAccess")
			if !pan && e == nil && d != nil && verdictsOf(d).Verify {
				out.Violate("C14", "tampered-file-accepted", "cardAccess", "EF.CardAccess modified in the store (DG14 present) and the completeness check still passes")
			}
		}
	}
	out.Fingerprint = log.Fingerprint()
	mech := ""
	if live.CA {
		mech += "CA"
	}
	if live.CAM {
		mech += "CAM"
	}
	if live.AA {
		mech += "AA"
	}
	out.Key = fmt.Sprintf("%s|%s|%s|%s|pa=%v", mech, caKey(c.Spec), aaKey(c.Spec), accessKey(c.Spec), live.PA)
	if r.Chip.Facts.SharedSecretsZeros > 0 {
		out.Probe("shared_secret_leading_zero")
	}
	return out
}

// camJointReplacement builds the documented structural gap: ChipKaPub' = k*G' is not computable without
// the mapped generator, so the attacker picks ChipKaPub' as any valid point, derives ksEnc' from
// TermKaPri*ChipKaPub' and re-encrypts the genuine CA_IC.
func camJointReplacement(ev store.Evidence) (store.Evidence, bool) {
	p := ev.PaceCam
	cv := chip.CurveByParamID(p.ParameterId)
	if cv == nil || len(p.PaceOid) == 0 {
		return ev, false
	}
	suite := map[int]string{2: chip.AES128, 3: chip.AES192, 4: chip.AES256}[p.PaceOid[len(p.PaceOid)-1]]
	if suite == "" {
		return ev, false
	}
	kx, ky, err := chip.DecodePoint(cv, p.ChipKaPub)
	if err != nil {
		return ev, false
	}
	sx, _ := cv.ScalarMult(kx, ky, p.TermKaPri)
	ksEnc := chip.KDF(chip.FE2OS(cv, sx), 1, suite)
	caic, err := chip.DecryptCAM(suite, ksEnc, p.EcadIC)
	if err != nil {
		return ev, false
	}
	np := otherPoint(p.ParameterId, p.ChipKaPub, 31337)
	nx, ny, _ := chip.DecodePoint(cv, np)
	sx2, _ := cv.ScalarMult(nx, ny, p.TermKaPri)
	ksEnc2 := chip.KDF(chip.FE2OS(cv, sx2), 1, suite)
	e2 := cloneEvidence(ev)
	e2.PaceCam.ChipKaPub = np
	e2.PaceCam.EcadIC = chip.EncryptCAM(suite, ksEnc2, caic)
	return e2, true
}

// ------------------------------------------------------------------ C15

type StoreCorruptCase struct {
	Spec      world.WorldSpec `json:"spec"`
	Evidence  bool            `json:"evidence"`   // DocumentEx blob (with evidence) or plain Document blob
	Synthetic int             `json:"synthetic"`  // bit mask of synthetic evidence kinds added (1 CAM, 2 CA, 4 AA)
	DropFiles int             `json:"drop_files"` // bit mask over optional files removed before export
	Stride    int             `json:"stride"`     // 1 = every byte position
}

type StoreCorruptEngine struct{}

func (StoreCorruptEngine) Name() string { return "store-corrupt" }
func (StoreCorruptEngine) Decode(raw json.RawMessage) (any, error) {
	var c StoreCorruptCase
	err := json.Unmarshal(raw, &c)
	return c, err
}

func (StoreCorruptEngine) Gen(prop, tier string, seed uint64, yield func(c any) bool) {
	n := 96
	if tier == "thorough" {
		n = 6000
	}
	if prop != "C15" {
		n /= 3
	}
	rng := core.NewRng(core.SubSeed(seed, "store-corrupt", tier))
	for i := 0; i < n; i++ {
		s := genEvidenceWorld(rng, i)
		s.DGs = []int{1}
		for _, d := range []int{2, 7, 11, 12, 13, 16} {
			if rng.Bool() {
				s.DGs = append(s.DGs, d)
			}
		}
		s.DG2Size, s.DG7Size, s.DG13Size = 20, 16, 3
		// small certificates keep the blob (and the enumeration) small
		s.CSCA, s.CSCAScheme = world.KeySpec{Kind: "ec", CurveID: 12}, world.SchemeSpec{Kind: "ecdsa", Hash: "SHA256"}
		s.DS, s.DSScheme = world.KeySpec{Kind: "ec", CurveID: core.Pick(rng, []int{10, 12, 13})}, world.SchemeSpec{Kind: "ecdsa", Hash: "SHA256"}
		// security objects in the BER form met in the field: indefinite-length SignedData (a wrapper with four length
		// octets cannot be read live: ReadFile takes a 4-byte header, and C13 quantifies over 1-3 length octets)
		s.Indefinite = i%3 == 1
		if s.AA != nil && s.AA.Kind == "rsa" {
			s.AA.Bits = 1024
		}
		stride := 1
		if i%8 == 5 {
			// larger payloads (several checksum / copy blocks); every third position to bound the cost
			s.DGs = []int{1, 2}
			s.DG2Size = core.Pick(rng, []int{4200, 6000, 9000, 13000})
			stride = 3
		}
		if i%8 == 3 {
			// files around and beyond 32 KiB up to the largest length a 4-byte header read can announce (where READ BINARY addressing and CBOR length
			// forms change); a sparse position grid bounds the cost of the enumeration
			s.DGs = []int{1, 2}
			s.DG2Size = []int{32700, 32767, 32768, 40000, 60000, 65000}[(i/8)%6]
			stride = 61
		}
		if !yield(StoreCorruptCase{Spec: s, Evidence: i%3 != 0, Synthetic: rng.Intn(8), DropFiles: rng.Intn(64), Stride: stride}) {
			return
		}
	}
}

func (StoreCorruptEngine) Shrink(ci any) []any { return nil }

type imported struct {
	files map[string][]byte
	ev    store.Evidence
}

func importBlob(blob []byte, withEvidence bool) (imp *imported, err error, pan any) {
	func() {
		defer func() { pan = recover() }()
		if withEvidence {
			d, b, e := document.UnmarshalVerifiableDoc(blob)
			if e != nil {
				err = e
				return
			}
			imp = &imported{files: docFileMap(d)}
			if b.PaceCam != nil {
				p := b.PaceCam
				imp.ev.PaceCam = &store.PaceCam{PaceOid: []int(p.PaceOid), ParameterId: p.ParameterId, Nonce: p.Nonce, TermMapPri: p.TermMapPri, TermMapPub: p.TermMapPub, ChipMapPub: p.ChipMapPub, TermKaPri: p.TermKaPri, TermKaPub: p.TermKaPub, ChipKaPub: p.ChipKaPub, EcadIC: p.EcadIC}
			}
			if b.ChipAuth != nil {
				imp.ev.CA = &store.CA{TermPri: b.ChipAuth.TermPri, TermPubKey: b.ChipAuth.TermPubKey, SmRapdu: b.ChipAuth.SmRapdu, SmSsc: b.ChipAuth.SmSsc}
			}
			if b.ActiveAuth != nil {
				imp.ev.AA = &store.AA{Algorithm: []int(b.ActiveAuth.Algorithm), Nonce: b.ActiveAuth.Nonce, Signature: b.ActiveAuth.Signature}
			}
			return
		}
		d, e := document.NewDocumentFromCbor(blob)
		if e != nil {
			err = e
			return
		}
		imp = &imported{files: docFileMap(d)}
	}()
	return
}

func normEv(e store.Evidence) store.Evidence {
	// nil and empty slices are the same content
	n := func(b []byte) []byte {
		if len(b) == 0 {
			return nil
		}
		return b
	}
	o := cloneEvidence(e)
	if o.PaceCam != nil {
		p := o.PaceCam
		p.Nonce, p.TermMapPri, p.TermMapPub, p.ChipMapPub, p.TermKaPri, p.TermKaPub, p.ChipKaPub, p.EcadIC = n(p.Nonce), n(p.TermMapPri), n(p.TermMapPub), n(p.ChipMapPub), n(p.TermKaPri), n(p.TermKaPub), n(p.ChipKaPub), n(p.EcadIC)
		if len(p.PaceOid) == 0 {
			p.PaceOid = nil
		}
	}
	if o.CA != nil {
		c := o.CA
		c.TermPri, c.TermPubKey, c.SmRapdu, c.SmSsc = n(c.TermPri), n(c.TermPubKey), n(c.SmRapdu), n(c.SmSsc)
	}
	if o.AA != nil {
		a := o.AA
		a.Nonce, a.Signature = n(a.Nonce), n(a.Signature)
		if len(a.Algorithm) == 0 {
			a.Algorithm = nil
		}
	}
	return o
}

func sameContent(a, b *imported) bool {
	if len(a.files) != len(b.files) {
		return false
	}
	for k, v := range a.files {
		if !bytes.Equal(v, b.files[k]) {
			return false
		}
	}
	return reflect.DeepEqual(normEv(a.ev), normEv(b.ev))
}

func (StoreCorruptEngine) Run(prop string, ci any) *core.Outcome {
	c := ci.(StoreCorruptCase)
	out := &core.Outcome{}
	r := runRead(c.Spec, nil, out, nil)
	out.Exchanges = r.Link.N
	if r.Panic != nil || r.Err != nil || r.Doc == nil {
		out.Discarded = "live-read-failed"
		out.Violate("C08", "read-failed-in-envelope", "store-engine", "live read failed: %v %v", r.Err, r.Panic)
		return out
	}
	log := r.Link.Log
	d := r.Doc
	rng := core.NewRng(core.SubSeed(c.Spec.Seed, "corrupt"))
	// vary the file subset: drop optional files from the document before export
	opt := []func(){
		func() { d.Document.Mf.Dir = nil }, func() { d.Document.Mf.Lds1.Com = nil }, func() { d.Document.Mf.CardAccess = nil },
		func() { d.Document.Mf.Lds1.Dg14 = nil }, func() { d.Document.Mf.Lds1.Dg15 = nil }, func() { d.Document.Mf.CardSecurity = nil },
	}
	for i, f := range opt {
		if c.DropFiles&(1<<uint(i)) != 0 {
			f()
		}
	}
	// synthetic evidence kinds (import does not verify evidence, so any values exercise the codec); a third of the
	// fixed-width values start with one or two zero octets (derived from the value itself: no extra draw)
	lz := func(b []byte) []byte {
		if t := b[len(b)-1]; t%3 == 0 {
			b[0] = 0
			if t%2 == 0 {
				b[1] = 0
			}
			out.Probe("evidence_value_leading_zero")
		}
		return b
	}
	if c.Evidence {
		if c.Synthetic&1 != 0 && d.Session.PaceCamResult == nil {
			d.Session.PaceCamResult = &document.PaceCamResult{Success: true, Evidence: &document.PaceCamEvidence{PaceOid: chip.PaceOID(chip.AES128, true), ParameterId: 13, Nonce: lz(rng.Bytes(16)), TermMapPri: lz(rng.Bytes(32)), TermMapPub: rng.Bytes(65), ChipMapPub: rng.Bytes(65), TermKaPri: lz(rng.Bytes(32)), TermKaPub: rng.Bytes(65), ChipKaPub: rng.Bytes(65), EcadIC: rng.Bytes(48)}}
		}
		if c.Synthetic&2 != 0 && d.Session.ChipAuthResult == nil {
			d.Session.ChipAuthResult = &document.ChipAuthResult{Success: true, Evidence: &document.ChipAuthEvidence{TermPri: lz(rng.Bytes(32)), TermPubKey: rng.Bytes(65), SmRapdu: rng.Bytes(16), SmSsc: lz(rng.Bytes(8))}}
		}
		if c.Synthetic&4 != 0 && d.Session.ActiveAuthResult == nil {
			d.Session.ActiveAuthResult = &document.ActiveAuthResult{Success: true, Evidence: &document.ActiveAuthEvidence{Algorithm: []int{1, 2, 840, 113549, 1, 1, 1}, Nonce: lz(rng.Bytes(8)), Signature: lz(rng.Bytes(128))}}
		}
	}
	var blob []byte
	var err error
	if c.Evidence {
		blob, err = d.ToCbor()
	} else {
		blob, err = d.Document.ToCbor()
	}
	if err != nil {
		out.Violate("C15", "export-failed", "ToCbor", "export failed: %v", err)
		return out
	}
	log.Add("store.write", blob)
	orig := &imported{files: docFileMap(&d.Document)}
	if c.Evidence {
		orig.ev = evidenceOf(&d.Session)
	}
	sig := fmt.Sprintf("evidence=%v", c.Evidence)
	// --- fault-free round trip
	imp, ierr, pan := importBlob(blob, c.Evidence)
	if pan != nil {
		out.Violate("C15", "panic", sig, "import panicked on a genuine blob: %v", pan)
		out.Violate("C12", "panic-in-import", sig, "import panicked on a genuine blob: %v", pan)
		return out
	}
	if ierr != nil || imp == nil {
		out.Violate("C15", "roundtrip-rejected", sig, "import of a freshly exported blob failed: %v", ierr)
		return out
	}
	if !sameContent(orig, imp) {
		out.Violate("C15", "roundtrip-differs", sig, "imported content differs from the exported document (files %d vs %d)", len(orig.files), len(imp.files))
	}
	// identical parsed (JSON) view of every file
	{
		var d2 *document.Document
		if c.Evidence {
			d2, _, _ = document.UnmarshalVerifiableDoc(blob)
		} else {
			d2, _ = document.NewDocumentFromCbor(blob)
		}
		j1, e1 := json.Marshal(d.Document)
		j2, e2 := json.Marshal(d2)
		if e1 != nil || e2 != nil || !bytes.Equal(j1, j2) {
			out.Violate("C15", "parsed-view-differs", sig, "JSON view of the imported document differs from the original (marshal errors: %v %v)", e1, e2)
		}
	}
	// --- corruption: every byte position x substitutions; every truncation; extensions
	check := func(kind string, b []byte, pos int) {
		out.Fault(kind)
		im, e, pan := importBlob(b, c.Evidence)
		if pan != nil {
			out.Violate("C15", "panic-on-corrupt-blob", kind, "import panicked (%s at %d): %v", kind, pos, pan)
			out.Violate("C12", "panic-in-import", kind, "import panicked on a corrupted blob (%s at %d): %v", kind, pos, pan)
			return
		}
		if e != nil || im == nil {
			return
		}
		if !sameContent(orig, im) {
			out.Violate("C15", "corrupt-blob-imports-differently", kind, "blob (%d bytes) with %s at offset %d imports without error to different content", len(blob), kind, pos)
		} else {
			out.Probe("corrupt_blob_same_content")
		}
	}
	stride := max(1, c.Stride)
	envelopeRegion := 80
	start := 0
	if stride > 1 {
		start = int(c.Spec.Seed % uint64(stride))
	}
	for pos := start; pos < len(blob); pos += stride {
		subs := []byte{blob[pos] ^ 0x01, blob[pos] ^ 0x80, 0x00, 0xFF}
		if pos < envelopeRegion || pos >= len(blob)-4 {
			subs = subs[:0]
			for v := 0; v < 256; v++ {
				subs = append(subs, byte(v))
			}
		}
		for _, v := range subs {
			if v == blob[pos] {
				continue
			}
			b := bytes.Clone(blob)
			b[pos] = v
			check("bitrot", b, pos)
		}
	}
	for n := 0; n < len(blob); n += stride {
		check("torn_write", blob[:n], n)
	}
	for n := 1; n <= 16; n++ {
		check("extend", append(bytes.Clone(blob), rng.Bytes(n)...), len(blob))
	}
	check("extend_second_blob", append(bytes.Clone(blob), blob...), len(blob))
	// foreign magic / newer version via the byzantine writer (checksums valid)
	{
		files := orig.files
		inner := store.EncodeDocument(files)
		evb := store.EncodeEvidence(orig.ev)
		mk := func(magic string, ver uint64) []byte {
			if c.Evidence {
				return store.Envelope(magic, ver, store.Map(store.KV{K: "document", V: store.Bytes(inner)}, store.KV{K: "chipAuthEvidence", V: store.Bytes(evb)}))
			}
			return store.Envelope(magic, ver, store.Map(filesKV(files)...))
		}
		good := "gmrtd-raw-doc"
		if c.Evidence {
			good = "gmrtd-verifiable-doc"
		}
		if im, e, _ := importBlob(mk(good, 1), c.Evidence); e != nil || im == nil || !sameContent(orig, im) {
			out.Discarded = "harness: own envelope writer not accepted"
			out.Violate("HARNESS", "encoder", "store", "own writer: %v", e)
			return out
		}
		for _, m := range []string{"gmrtd-raw-doc", "gmrtd-verifiable-doc", "gmrtd-chip-auth-evidence", "GMRTD-RAW-DOC", "gmrtd-raw-do", "gmrtd-raw-docx", "gmrtd-verifiable-doc2", "", "foreign"} {
			if m == good {
				continue
			}
			out.Fault("foreign_magic")
			if im, e, _ := importBlob(mk(m, 1), c.Evidence); e == nil && im != nil {
				out.Violate("C15", "foreign-magic-accepted", m, "blob with magic %q accepted where %q is expected", m, good)
			}
		}
		for _, v := range []uint64{2, 3, 255, 1 << 32} {
			out.Fault("newer_version")
			if im, e, _ := importBlob(mk(good, v), c.Evidence); e == nil && im != nil {
				out.Violate("C15", "newer-version-accepted", fmt.Sprintf("v%d", v), "blob with version %d accepted (supported: 1)", v)
			}
		}
		if c.Evidence {
			// nested envelopes: foreign magic / newer version one level down
			for _, variant := range []string{"inner-doc-magic", "inner-doc-version", "inner-ev-magic", "inner-ev-version", "inner-ev-old-version"} {
				in2, ev2 := inner, evb
				switch variant {
				case "inner-doc-magic":
					in2 = store.Envelope("gmrtd-verifiable-doc", 1, store.Map(filesKV(files)...))
				case "inner-doc-version":
					in2 = store.Envelope("gmrtd-raw-doc", 2, store.Map(filesKV(files)...))
				case "inner-ev-magic":
					ev2 = reEnvelope(evb, "gmrtd-raw-doc", 2)
				case "inner-ev-version":
					ev2 = reEnvelope(evb, "gmrtd-chip-auth-evidence", 3)
				case "inner-ev-old-version":
					ev2 = reEnvelope(evb, "gmrtd-chip-auth-evidence", 1)
				}
				b := store.Envelope(good, 1, store.Map(store.KV{K: "document", V: store.Bytes(in2)}, store.KV{K: "chipAuthEvidence", V: store.Bytes(ev2)}))
				out.Fault("nested_" + variant)
				if im, e, _ := importBlob(b, true); e == nil && im != nil {
					out.Violate("C15", "nested-envelope-accepted", variant, "nested envelope variant %s accepted", variant)
				}
			}
		}
	}
	// nested write torn one level down: a byte of an INNER payload rots and only the OUTER envelope checksum is
	// recomputed (each nesting level must detect corruption on its own)
	if c.Evidence {
		inner := store.EncodeDocument(orig.files)
		evb := store.EncodeEvidence(orig.ev)
		wrap := func(in2, ev2 []byte) []byte {
			return store.Envelope("gmrtd-verifiable-doc", 1, store.Map(store.KV{K: "document", V: store.Bytes(in2)}, store.KV{K: "chipAuthEvidence", V: store.Bytes(ev2)}))
		}
		for rep := 0; rep < 300; rep++ {
			in2, ev2 := inner, evb
			which := "document"
			if rep%2 == 1 {
				which = "evidence"
				ev2 = bytes.Clone(evb)
				pos := len(ev2) - 1 - rng.Intn(max(1, len(ev2)-70)) // inside the payload byte string (it comes last)
				ev2[pos] ^= byte(1 << uint(rng.Intn(8)))
			} else {
				in2 = bytes.Clone(inner)
				pos := len(in2) - 1 - rng.Intn(max(1, len(in2)-60))
				in2[pos] ^= byte(1 << uint(rng.Intn(8)))
			}
			check("inner_rot_outer_fixed_"+which, wrap(in2, ev2), rep)
		}
		// the evidence bundle is also a stored blob of its own (NewChipAuthEvidenceFromCbor is a public entry point)
		if eb, err := d.Session.ChipAuthEvidenceToCbor(); err == nil {
			want := normEv(orig.ev)
			for pos := 0; pos < len(eb); pos++ {
				for _, v := range []byte{eb[pos] ^ 0x01, eb[pos] ^ 0x80, 0x00, 0xFF} {
					if v == eb[pos] {
						continue
					}
					b := bytes.Clone(eb)
					b[pos] = v
					out.Fault("evidence_blob_bitrot")
					var got *document.ChipAuthEvidenceBundle
					var e error
					var pan any
					func() {
						defer func() { pan = recover() }()
						got, e = document.NewChipAuthEvidenceFromCbor(b)
					}()
					if pan != nil {
						out.Violate("C12", "panic-in-import", "evidence-blob", "NewChipAuthEvidenceFromCbor panicked: %v", pan)
						continue
					}
					if e != nil || got == nil {
						continue
					}
					im := &imported{}
					if got.PaceCam != nil {
						p := got.PaceCam
						im.ev.PaceCam = &store.PaceCam{PaceOid: []int(p.PaceOid), ParameterId: p.ParameterId, Nonce: p.Nonce, TermMapPri: p.TermMapPri, TermMapPub: p.TermMapPub, ChipMapPub: p.ChipMapPub, TermKaPri: p.TermKaPri, TermKaPub: p.TermKaPub, ChipKaPub: p.ChipKaPub, EcadIC: p.EcadIC}
					}
					if got.ChipAuth != nil {
						im.ev.CA = &store.CA{TermPri: got.ChipAuth.TermPri, TermPubKey: got.ChipAuth.TermPubKey, SmRapdu: got.ChipAuth.SmRapdu, SmSsc: got.ChipAuth.SmSsc}
					}
					if got.ActiveAuth != nil {
						im.ev.AA = &store.AA{Algorithm: []int(got.ActiveAuth.Algorithm), Nonce: got.ActiveAuth.Nonce, Signature: got.ActiveAuth.Signature}
					}
					if !reflect.DeepEqual(normEv(im.ev), want) {
						out.Violate("C15", "corrupt-blob-imports-differently", "evidence-blob", "evidence blob (%d bytes) with byte %d changed imports without error to different evidence", len(eb), pos)
					}
				}
			}
		}
	}
	log.Add("done", []byte(fmt.Sprint(len(out.Violations))))
	out.Fingerprint = log.Fingerprint()
	nf := len(orig.files)
	out.Key = fmt.Sprintf("evidence=%v|files=%d|cam=%v|ca=%v|aa=%v|len=%d", c.Evidence, nf, orig.ev.PaceCam != nil, orig.ev.CA != nil, orig.ev.AA != nil, len(blob)/256)
	return out
}

func filesKV(files map[string][]byte) []store.KV {
	var kvs []store.KV
	for _, k := range store.FileKeys {
		if f, ok := files[k]; ok && len(f) > 0 {
			kvs = append(kvs, store.KV{K: k, V: store.Bytes(f)})
		}
	}
	return kvs
}

// reEnvelope re-wraps the payload of an envelope produced by store.EncodeEvidence under another magic/version.
func reEnvelope(env []byte, magic string, ver uint64) []byte {
	// the payload is the last byte string of the map; recover it by re-encoding from scratch is simpler:
	// locate "payload" key and take the following byte string.
	i := bytes.Index(env, []byte("payload"))
	if i < 0 {
		return env
	}
	p := env[i+len("payload"):]
	// byte string header
	ai := p[0] & 0x1F
	var n, h int
	switch {
	case ai < 24:
		n, h = int(ai), 1
	case ai == 24:
		n, h = int(p[1]), 2
	case ai == 25:
		n, h = int(p[1])<<8|int(p[2]), 3
	default:
		n, h = int(p[1])<<24|int(p[2])<<16|int(p[3])<<8|int(p[4]), 5
	}
	return store.Envelope(magic, ver, p[h:h+n])
}

var _ = term.InstallSeams

// cardAccessOutsideDG14 reports whether the (well-formed) SET in ca has at least one element whose encoding does not
// occur as an element of DG14's SecurityInfos.
func cardAccessOutsideDG14(ca, dg14 []byte) bool {
	top, err := chip.ParseTLVs(ca)
	if err != nil || len(top) != 1 || top[0].Tag != 0x31 {
		return false
	}
	els, err := chip.ParseTLVs(top[0].Val)
	if err != nil {
		return false
	}
	d, err := chip.ParseTLVs(dg14)
	if err != nil || len(d) != 1 {
		return false
	}
	dset, err := chip.ParseTLVs(d[0].Val)
	if err != nil || len(dset) != 1 {
		return false
	}
	dels, err := chip.ParseTLVs(dset[0].Val)
	if err != nil {
		return false
	}
	for _, e := range els {
		found := false
		for _, x := range dels {
			if bytes.Equal(e.Raw, x.Raw) {
				found = true
			}
		}
		if !found {
			return true
		}
	}
	return false
}

// negPoint returns the uncompressed encoding of -P for the uncompressed point p on the curve of the parameter id.
func negPoint(paramID int, p []byte) []byte {
	cv := chip.CurveByParamID(paramID)
	if cv == nil || len(p) < 3 || p[0] != 0x04 {
		return flipLast(p)
	}
	l := (len(p) - 1) / 2
	y := new(big.Int).SetBytes(p[1+l:])
	y.Sub(cv.Params().P, y)
	o := bytes.Clone(p)
	y.FillBytes(o[1+l:])
	return o
}
