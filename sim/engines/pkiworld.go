package engines

import (
	"bytes"
	"encoding/json"
	"fmt"
	"math/big"
	"time"

	"github.com/gmrtd/gmrtd/cms"
	"github.com/gmrtd/gmrtd/document"
	"github.com/gmrtd/gmrtd/passiveauth"

	"verif/sim/chip"
	"verif/sim/core"
	"verif/sim/lds"
	"verif/sim/pki"
	"verif/sim/term"
	"verif/sim/world"
)

// pki-world: issuer (with calendar), chip files and trust store as parties; verdicts taken
// through the real passiveauth.PassiveAuth on a Document built with the public constructors
// (and, in the e2e/store engines, through live reads and offline verification).
//   PKIProfileEngine (C09): fault-free issuing-profile matrix.
//   PKIForgeryEngine (C01): byzantine issuer / chip / trust-store operator and at-rest corruption.

func buildDocument(w *world.World, lds map[uint16][]byte, mf map[uint16][]byte) (d *document.Document, err error, pan any) {
	d = &document.Document{}
	func() {
		defer func() { pan = recover() }()
		if d.Mf.CardAccess, err = document.NewCardAccess(mf[chip.FidCardAccess]); err != nil {
			return
		}
		if d.Mf.CardSecurity, err = document.NewCardSecurity(mf[chip.FidCardSecurity]); err != nil {
			return
		}
		if d.Mf.Lds1.Sod, err = document.NewSOD(lds[chip.FidSOD]); err != nil {
			return
		}
		if d.Mf.Lds1.Com, err = document.NewCOM(lds[chip.FidCOM]); err != nil {
			return
		}
		for _, n := range []int{1, 2, 7, 11, 12, 13, 14, 15, 16} {
			if f, ok := lds[chip.FidDG(n)]; ok {
				if err = d.NewDG(n, f); err != nil {
					return
				}
			}
		}
	}()
	return
}

func runPA(out *core.Outcome, d *document.Document, pool cms.CertPool) (res *document.PassiveAuthResult, err error, pan any) {
	func() {
		defer func() { pan = recover() }()
		res, err = passiveauth.PassiveAuth(d, pool)
	}()
	if pan != nil {
		out.Violate("C12", "panic-in-passive-auth", "PassiveAuth", "PassiveAuth panicked: %v", pan)
	}
	return
}

// ------------------------------------------------------------------ C09

type ProfileCase struct {
	Spec world.WorldSpec `json:"spec"`
}

type PKIProfileEngine struct{}

func (PKIProfileEngine) Name() string { return "pki-profile" }
func (PKIProfileEngine) Decode(raw json.RawMessage) (any, error) {
	var c ProfileCase
	err := json.Unmarshal(raw, &c)
	return c, err
}

var keyMatrix = func() []world.KeySpec {
	var ks []world.KeySpec
	for _, b := range []int{1024, 1536, 2048, 3072, 4096} {
		ks = append(ks, world.KeySpec{Kind: "rsa", Bits: b})
	}
	for _, id := range chip.AllParamIDs {
		ks = append(ks, world.KeySpec{Kind: "ec", CurveID: id}, world.KeySpec{Kind: "ec", CurveID: id, Explicit: true})
	}
	return ks
}()

func schemeFor(rng *core.Rng, k world.KeySpec, hash string, i int) world.SchemeSpec {
	if k.Kind == "ec" {
		return world.SchemeSpec{Kind: "ecdsa", Hash: hash}
	}
	kind := []string{"pkcs1", "pss"}[i%2]
	if kind == "pss" && k.Bits <= 1024 && (hash == "SHA512" || hash == "SHA384") {
		hash = "SHA256"
	}
	return world.SchemeSpec{Kind: kind, Hash: hash}
}

func genProfile(rng *core.Rng, i int) world.WorldSpec {
	s := world.WorldSpec{Seed: rng.U64(), Password: "mrz", BAC: true, DGs: []int{1, 2}, DG2Size: 40, B: chip.DefaultBehaviour()}
	s.Country = rng.Intn(7)
	s.CSCA = keyMatrix[i%len(keyMatrix)]
	s.DS = keyMatrix[(i/len(keyMatrix)+i)%len(keyMatrix)]
	h1 := pki.Hashes[(i/3)%5]
	h2 := pki.Hashes[(i/7)%5]
	s.CSCAScheme = schemeFor(rng, s.CSCA, h1, i/5)
	s.DSScheme = schemeFor(rng, s.DS, h2, i/11)
	s.DGHash = pki.Hashes[(i/13)%5]
	// the validity-neutral variations are drawn independently of each other and of the key matrix (index-derived
	// strata aliased: name variant and issuer-and-serial never met)
	s.SIDForm = core.Pick(rng, []string{"issuerSerial", "issuerSerial", "ski"})
	s.LDSVersion = rng.Intn(2)
	s.NoSigning = rng.Chance(1, 6)
	s.HashNoParams = rng.Chance(1, 8)
	s.Indefinite = rng.Chance(1, 5)
	s.ExtraCerts = core.Pick(rng, []int{0, 0, 1, 2})
	s.ExtraFirst = rng.Bool()
	s.EmbedCSCA = rng.Chance(1, 3)
	s.NameVariant = rng.Chance(1, 2)
	s.HashOrder = core.Pick(rng, []int{0, 0, 1, 2, 3, 4})
	s.DecoyAnchors = rng.Intn(4)
	s.SameSKIDecoy = rng.Chance(1, 4)
	if !s.NoSigning {
		s.SignEdge = core.Pick(rng, []int{0, 0, 1, 2, 5, 7})
	}
	for _, n := range []int{7, 11, 12, 13, 16} {
		if rng.Chance(1, 3) {
			s.DGs = append(s.DGs, n)
		}
	}
	s.DG7Size, s.DG13Size = 30, 10
	if rng.Chance(1, 3) {
		s.PACE = []world.PaceSpec{{Suite: chip.AES128, CAM: true, ParamID: core.Pick(rng, chip.AllParamIDs)}}
		s.CardSecVariant = core.Pick(rng, []int{0, 1, 2, 3})
		s.CardSecExtraKeys = core.Pick(rng, []int{0, 0, 1, 2})
	}
	return s
}

func (PKIProfileEngine) Gen(prop, tier string, seed uint64, yield func(c any) bool) {
	n := 2400
	if tier == "thorough" {
		n = 120000
	}
	rng := core.NewRng(core.SubSeed(seed, "pki-profile", tier))
	for i := 0; i < n; i++ {
		if !yield(ProfileCase{Spec: genProfile(rng, i)}) {
			return
		}
	}
}

func (PKIProfileEngine) Shrink(ci any) []any {
	c := ci.(ProfileCase)
	var out []any
	add := func(m func(s *world.WorldSpec)) {
		y := c
		y.Spec.DGs = append([]int{}, c.Spec.DGs...)
		m(&y.Spec)
		a, _ := json.Marshal(y)
		b, _ := json.Marshal(c)
		if !bytes.Equal(a, b) {
			out = append(out, y)
		}
	}
	add(func(s *world.WorldSpec) { s.PACE = nil })
	add(func(s *world.WorldSpec) { s.DGs = []int{1} })
	add(func(s *world.WorldSpec) { s.DecoyAnchors = 0 })
	add(func(s *world.WorldSpec) { s.SameSKIDecoy = false })
	add(func(s *world.WorldSpec) { s.ExtraCerts = 0 })
	add(func(s *world.WorldSpec) { s.NameVariant = false })
	add(func(s *world.WorldSpec) { s.ExtraFirst = false })
	add(func(s *world.WorldSpec) { s.EmbedCSCA = false })
	add(func(s *world.WorldSpec) { s.HashOrder = 0 })
	add(func(s *world.WorldSpec) { s.CardSecVariant = 0 })
	add(func(s *world.WorldSpec) { s.CardSecExtraKeys = 0 })
	add(func(s *world.WorldSpec) { s.Indefinite = false })
	add(func(s *world.WorldSpec) { s.HashNoParams = false })
	add(func(s *world.WorldSpec) { s.SignEdge = 0 })
	add(func(s *world.WorldSpec) { s.NoSigning = false })
	add(func(s *world.WorldSpec) { s.SIDForm = "issuerSerial" })
	add(func(s *world.WorldSpec) { s.LDSVersion = 0 })
	add(func(s *world.WorldSpec) { s.DGHash = "SHA256" })
	add(func(s *world.WorldSpec) {
		s.CSCA, s.CSCAScheme = world.KeySpec{Kind: "ec", CurveID: 12}, world.SchemeSpec{Kind: "ecdsa", Hash: "SHA256"}
	})
	add(func(s *world.WorldSpec) {
		s.DS, s.DSScheme = world.KeySpec{Kind: "ec", CurveID: 12}, world.SchemeSpec{Kind: "ecdsa", Hash: "SHA256"}
	})
	add(func(s *world.WorldSpec) { s.DS.Explicit, s.CSCA.Explicit = false, false })
	return out
}

func (PKIProfileEngine) Run(prop string, ci any) *core.Outcome {
	c := ci.(ProfileCase)
	out := &core.Outcome{}
	term.InstallSeams()
	w := world.Build(c.Spec)
	log := &term.EventLog{}
	log.Add("sod", w.LDS[chip.FidSOD])
	d, err, pan := buildDocument(w, w.LDS, w.MF)
	key := profileKey(c.Spec) + fmt.Sprintf("|edge=%d|extra=%d|name=%v|ski2=%v|np=%v", c.Spec.SignEdge, c.Spec.ExtraCerts, c.Spec.NameVariant, c.Spec.SameSKIDecoy, c.Spec.HashNoParams) + fmt.Sprintf("|xf=%v|ec=%v|ho=%d", c.Spec.ExtraFirst, c.Spec.EmbedCSCA, c.Spec.HashOrder) + fmt.Sprintf("|cs=%d/%d", c.Spec.CardSecVariant, c.Spec.CardSecExtraKeys)
	if pan != nil {
		out.Violate("C09", "panic", key, "constructors panicked on a genuine document: %v", pan)
		out.Violate("C12", "panic-in-constructor", "genuine", "constructors panicked on a genuine document: %v", pan)
		return out
	}
	if err != nil {
		out.Violate("C09", "genuine-unparseable", key, "a correctly issued document is rejected by the file constructors: %v", err)
		return out
	}
	res, perr, pan := runPA(out, d, w.Pool)
	if pan != nil {
		out.Violate("C09", "panic", key, "PassiveAuth panicked on a genuine document: %v", pan)
		return out
	}
	ok := res != nil && res.Success
	log.Add("pa", []byte(fmt.Sprint(ok)))
	if !ok {
		out.Violate("C09", "genuine-rejected", key, "correctly issued document not passively authenticated: %v", perr)
	} else {
		if res.Sod == nil || len(res.Sod.CertChain) != 2 || !bytes.Equal(res.Sod.CertChain[0], w.DSCert.DER) || !bytes.Equal(res.Sod.CertChain[1], w.CSCACert.DER) {
			out.Violate("C09", "wrong-chain", key, "passive authentication succeeded but the returned chain is not [DS, CSCA] (len=%d)", chainLen(res))
		}
		if w.CardSec != nil && (res.CardSec == nil || len(res.CardSec.CertChain) != 2) {
			out.Violate("C09", "wrong-chain", key+"/cardsec", "CardSecurity present but no chain returned for it")
		}
	}
	if c.Spec.Indefinite {
		out.Probe("indefinite_length_retry_path")
	}
	if c.Spec.SameSKIDecoy {
		out.Probe("second_anchor_candidate_used")
	}
	trust := &document.DocumentEx{Document: *d}
	trust.Session.PassiveAuthResult = res
	trustInvariant(out, trust, "pki-profile")
	out.Fingerprint = log.Fingerprint()
	out.Key = key
	return out
}

func chainLen(r *document.PassiveAuthResult) int {
	if r == nil || r.Sod == nil {
		return -1
	}
	return len(r.Sod.CertChain)
}

// ------------------------------------------------------------------ C01

type ForgeryCase struct {
	Spec  world.WorldSpec `json:"spec"`
	Fault string          `json:"fault"`
	A     int             `json:"a,omitempty"`
	B     int             `json:"b,omitempty"`
}

type PKIForgeryEngine struct{}

func (PKIForgeryEngine) Name() string { return "pki-forgery" }
func (PKIForgeryEngine) Decode(raw json.RawMessage) (any, error) {
	var c ForgeryCase
	err := json.Unmarshal(raw, &c)
	return c, err
}

var forgeryKinds = []string{
	"A1-dg-byteflip", "A2-dg-replaced", "A3-dg-injected", "A4-hashlist-altered", "A5-hashlist-and-digest-altered",
	"A6i-resigned-own-chain", "A6ii-resigned-claims-genuine-csca", "A6iii-genuine-ds-other-key", "A6iv-attacker-csca-other-country", "A6v-foreign-ds-swapped",
	"A7-anchor-removed", "A7-anchor-same-ski-other-key", "A7-anchor-not-ca", "A7-anchor-no-keycertsign", "A7-anchor-critical-eku", "A7-anchor-unknown-critical", "A7-anchor-no-bc", "A7-anchor-bc-ca-false",
	"A7-ds-no-keyusage", "A7-ds-no-digitalsignature", "A7-ds-unknown-critical",
	"A7-time-ds-before", "A7-time-ds-after", "A7-time-csca-after", "A7-time-csca-before", "A7-country-mismatch", "A7-country-unmappable", "A7-wrong-content-type", "A7-econtenttype-relabelled", "A7-wrong-message-digest",
	"A8-cardsec-econtent", "A8-cardsec-resigned-untrusted", "A8-cardsec-signedattrs", "A8-cardsec-foreign-signer", "A8-cardsec-time-ds-after", "A8-cardsec-time-ds-before",
	"A9-ml-tampered", "A9-ml-wrong-root", "A9-ml-signer-unchained", "A9-ml-signer-no-ku", "A9-ml-byte", "A9-ml-own-anchor", "A9-ml-self-issued-signer",
	"A10-sod-byte", "A10-cardsec-byte",
}

func (PKIForgeryEngine) Gen(prop, tier string, seed uint64, yield func(c any) bool) {
	n := 5000
	if tier == "thorough" {
		n = 120000
	}
	if prop != "C01" {
		n /= 4
	}
	rng := core.NewRng(core.SubSeed(seed, "pki-forgery", tier))
	for i := 0; i < n; i++ {
		s := genProfile(rng, i/len(forgeryKinds)*7+i%7)
		s.Seed = rng.U64()
		s.SameSKIDecoy, s.SignEdge, s.NameVariant = false, 0, false
		s.NoSigning = false
		s.Indefinite = false
		f := forgeryKinds[i%len(forgeryKinds)]
		if f[:2] == "A8" || f == "A10-cardsec-byte" {
			s.PACE = []world.PaceSpec{{Suite: chip.AES128, CAM: true, ParamID: core.Pick(rng, chip.AllParamIDs)}}
		}
		if i%3 == 0 && f[:2] == "A7" && f[:7] != "A7-time" {
			s.NoSigning = true // attribute faults must be caught with or without a signing time
		}
		if !yield(ForgeryCase{Spec: s, Fault: f, A: rng.Intn(1 << 20), B: rng.Intn(256)}) {
			return
		}
	}
}

func (PKIForgeryEngine) Shrink(ci any) []any {
	c := ci.(ForgeryCase)
	var out []any
	for _, y := range (PKIProfileEngine{}).Shrink(ProfileCase{Spec: c.Spec}) {
		out = append(out, ForgeryCase{Spec: y.(ProfileCase).Spec, Fault: c.Fault, A: c.A, B: c.B})
	}
	return out
}

func cloneFiles(m map[uint16][]byte) map[uint16][]byte {
	o := map[uint16][]byte{}
	for k, v := range m {
		o[k] = v
	}
	return o
}

func poolOf(certs ...[]byte) *cms.GenericCertPool {
	p := &cms.GenericCertPool{}
	for _, c := range certs {
		if err := p.Add(c); err != nil {
			return p
		}
	}
	return p
}

func replaceOnce(b, old, new []byte) ([]byte, bool) {
	i := bytes.Index(b, old)
	if i < 0 {
		return b, false
	}
	o := append(append(bytes.Clone(b[:i]), new...), b[i+len(old):]...)
	return o, true
}

func (PKIForgeryEngine) Run(prop string, ci any) *core.Outcome {
	c := ci.(ForgeryCase)
	out := &core.Outcome{}
	term.InstallSeams()
	w := world.Build(c.Spec)
	rng := core.NewRng(core.SubSeed(c.Spec.Seed, "forgery"))
	log := &term.EventLog{}
	// the genuine document must be accepted first (otherwise the run belongs to C09)
	gd, gerr, gpan := buildDocument(w, w.LDS, w.MF)
	if gpan != nil || gerr != nil {
		out.Discarded = "genuine-unparseable"
		out.Violate("C09", "genuine-unparseable", profileKey(c.Spec), "genuine document rejected by constructors: %v %v", gerr, gpan)
		return out
	}
	gres, gperr, _ := runPA(out, gd, w.Pool)
	if gres == nil || !gres.Success {
		out.Discarded = "genuine-rejected"
		out.Violate("C09", "genuine-rejected", profileKey(c.Spec), "genuine document not authenticated: %v", gperr)
		return out
	}
	ldsF, mfF := cloneFiles(w.LDS), cloneFiles(w.MF)
	var pool cms.CertPool = w.Pool
	mustReject := true
	note := ""
	applied := true
	dgs := []int{}
	for _, n := range []int{1, 2, 7, 11, 12, 13, 14, 15, 16} {
		if _, ok := w.LDS[chip.FidDG(n)]; ok {
			dgs = append(dgs, n)
		}
	}
	resign := func(spec pki.SignedDataSpec) { ldsF[chip.FidSOD] = pki.WrapSOD(pki.BuildSignedData(spec, rng).DER) }
	cscaSKI := pki.SKIOf(w.CSCAKey)
	issueDS := func(m func(s *pki.CertSpec), signer *pki.Key) *pki.Cert {
		s := w.DSCert.Spec
		m(&s)
		return pki.Issue(s, signer, c.Spec.CSCAScheme2(), rng)
	}
	issueCSCA := func(m func(s *pki.CertSpec)) *pki.Cert {
		s := w.CSCACert.Spec
		m(&s)
		return pki.Issue(s, w.CSCAKey, c.Spec.CSCAScheme2(), rng)
	}
	attackerKey := pki.NewECKey(12, rng, false)
	attackerScheme := pki.Scheme{Kind: "ecdsa", Hash: "SHA256"}
	switch c.Fault {
	case "A1-dg-byteflip":
		n := dgs[c.A%len(dgs)]
		f := bytes.Clone(ldsF[chip.FidDG(n)])
		pos := (c.A / 16) % len(f)
		f[pos] ^= byte(1 << uint(c.B%8))
		ldsF[chip.FidDG(n)] = f
		note = fmt.Sprintf("DG%d byte %d", n, pos)
	case "A2-dg-replaced":
		n := dgs[c.A%len(dgs)]
		switch n {
		case 1:
			h := lds.RandomHolder(rng, w.Holder.Layout, w.Holder.Issuer)
			ldsF[chip.FidDG(1)] = lds.DG1(h.MRZ())
		case 2:
			ldsF[chip.FidDG(2)] = lds.DG2(rng, [][][]byte{{lds.StubJPEG(rng, 40)}})
		case 7:
			ldsF[chip.FidDG(7)] = lds.DG7([][]byte{lds.StubJP2(rng, 30)})
		case 11:
			ldsF[chip.FidDG(11)] = lds.DG11(rng)
		case 12:
			ldsF[chip.FidDG(12)] = lds.DG12(rng)
		case 13:
			ldsF[chip.FidDG(13)] = lds.DG13(rng, 12)
		case 16:
			ldsF[chip.FidDG(16)] = lds.DG16(rng)
		default:
			f := bytes.Clone(ldsF[chip.FidDG(n)])
			f[len(f)-1] ^= 1
			ldsF[chip.FidDG(n)] = f
		}
		if bytes.Equal(ldsF[chip.FidDG(n)], w.LDS[chip.FidDG(n)]) {
			applied = false
		}
		note = fmt.Sprintf("DG%d", n)
	case "A3-dg-injected":
		// genuine, correctly signed SOD that does not list DG n; the document nevertheless carries DG n
		var cand []int
		for _, n := range []int{2, 7, 11, 12, 13, 16} {
			cand = append(cand, n)
		}
		n := cand[c.A%len(cand)]
		hashes := map[int][]byte{}
		var order []int
		for _, k := range w.DGOrder {
			if k != n {
				hashes[k] = w.DGHashes[k]
				order = append(order, k)
			}
		}
		sp := w.SODSpec
		sp.EContent = pki.LDSSecurityObject(c.Spec.LDSVersion, c.Spec.DGHash, hashes, order, "0108", "040000", c.Spec.HashNoParams)
		resign(sp)
		if _, ok := ldsF[chip.FidDG(n)]; !ok {
			switch n {
			case 2:
				ldsF[chip.FidDG(2)] = lds.DG2(rng, [][][]byte{{lds.StubJPEG(rng, 40)}})
			case 7:
				ldsF[chip.FidDG(7)] = lds.DG7([][]byte{lds.StubJP2(rng, 30)})
			case 11:
				ldsF[chip.FidDG(11)] = lds.DG11(rng)
			case 12:
				ldsF[chip.FidDG(12)] = lds.DG12(rng)
			case 13:
				ldsF[chip.FidDG(13)] = lds.DG13(rng, 12)
			case 16:
				ldsF[chip.FidDG(16)] = lds.DG16(rng)
			}
		}
		note = fmt.Sprintf("DG%d injected", n)
	case "A4-hashlist-altered", "A5-hashlist-and-digest-altered":
		n := dgs[c.A%len(dgs)]
		f := bytes.Clone(ldsF[chip.FidDG(n)])
		f[len(f)-1] ^= 0x01
		ldsF[chip.FidDG(n)] = f
		newHash := chip.Hash(c.Spec.DGHash, f)
		sod := ldsF[chip.FidSOD]
		var ok bool
		sod, ok = replaceOnce(sod, w.DGHashes[n], newHash)
		if !ok {
			applied = false
		}
		if c.Fault[:2] == "A5" {
			newLSO, _ := replaceOnce(w.LSO, w.DGHashes[n], newHash)
			sod, ok = replaceOnce(sod, chip.Hash(c.Spec.DSScheme.Hash, w.LSO), chip.Hash(c.Spec.DSScheme.Hash, newLSO))
			if !ok {
				applied = false
			}
		}
		ldsF[chip.FidSOD] = sod
		note = fmt.Sprintf("DG%d", n)
	case "A6i-resigned-own-chain", "A6ii-resigned-claims-genuine-csca", "A6iv-attacker-csca-other-country":
		n := dgs[c.A%len(dgs)]
		f := bytes.Clone(ldsF[chip.FidDG(n)])
		f[len(f)-1] ^= 0x01
		ldsF[chip.FidDG(n)] = f
		hashes := map[int][]byte{}
		for k, v := range w.DGHashes {
			hashes[k] = v
		}
		hashes[n] = chip.Hash(c.Spec.DGHash, f)
		evilCA := pki.NewECKey(12, rng, false)
		evilName := pki.CountryName(w.Alpha2, "Evil", "CSCA "+w.Alpha2)
		evilSKI := pki.SKIOf(evilCA)
		dsIssuer := evilName
		aki := evilSKI
		switch c.Fault {
		case "A6ii-resigned-claims-genuine-csca":
			dsIssuer, aki = w.CSCAName, cscaSKI
		case "A6iv-attacker-csca-other-country":
			other := lds.Countries[(c.Spec.Country+1)%len(lds.Countries)][1]
			evilName = pki.CountryName(other, "Evil", "CSCA "+other)
			evilCert := pki.Issue(pki.CertSpec{Serial: big.NewInt(9), Issuer: evilName, Subject: evilName, NotBefore: w.CSCANotBefore, NotAfter: w.CSCANotAfter, Key: evilCA, SKI: evilSKI, AKI: evilSKI, IsCA: true, PathLen: 0, KeyUsageBits: []int{pki.KUKeyCertSign}}, evilCA, attackerScheme, rng)
			cp := &cms.CombinedCertPool{}
			cp.AddCertPool(w.Pool)
			cp.AddCertPool(poolOf(evilCert.DER))
			pool = cp
			dsIssuer = w.CSCAName // DS claims the genuine country so that SOD and DG1 agree
		}
		evilDS := pki.Issue(pki.CertSpec{Serial: big.NewInt(10), Issuer: dsIssuer, Subject: w.DSName, NotBefore: w.DSNotBefore, NotAfter: w.DSNotAfter, Key: attackerKey, SKI: pki.SKIOf(attackerKey), AKI: aki, OmitBC: true, PathLen: -1, KeyUsageBits: []int{pki.KUDigitalSignature}}, evilCA, attackerScheme, rng)
		sp := w.SODSpec
		sp.EContent = pki.LDSSecurityObject(c.Spec.LDSVersion, c.Spec.DGHash, hashes, w.DGOrder, "0108", "040000", c.Spec.HashNoParams)
		sp.Signer, sp.SignerCert, sp.Scheme, sp.DigestAlg, sp.ExtraCerts = attackerKey, evilDS, attackerScheme, "SHA256", nil
		resign(sp)
	case "A6iii-genuine-ds-other-key":
		n := dgs[c.A%len(dgs)]
		f := bytes.Clone(ldsF[chip.FidDG(n)])
		f[len(f)-1] ^= 0x01
		ldsF[chip.FidDG(n)] = f
		hashes := map[int][]byte{}
		for k, v := range w.DGHashes {
			hashes[k] = v
		}
		hashes[n] = chip.Hash(c.Spec.DGHash, f)
		sp := w.SODSpec
		sp.EContent = pki.LDSSecurityObject(c.Spec.LDSVersion, c.Spec.DGHash, hashes, w.DGOrder, "0108", "040000", c.Spec.HashNoParams)
		sp.Signer, sp.Scheme, sp.DigestAlg = attackerKey, attackerScheme, "SHA256" // genuine DS certificate embedded, signature by another key
		resign(sp)
	case "A6v-foreign-ds-swapped":
		// another country's genuine DS (whose CSCA is also in the store) signs this country's document
		other := lds.Countries[(c.Spec.Country+2)%len(lds.Countries)][1]
		fCA := pki.NewECKey(12, rng, false)
		fName := pki.CountryName(other, "Sim Gov", "CSCA "+other)
		fSKI := pki.SKIOf(fCA)
		fCert := pki.Issue(pki.CertSpec{Serial: big.NewInt(21), Issuer: fName, Subject: fName, NotBefore: w.CSCANotBefore, NotAfter: w.CSCANotAfter, Key: fCA, SKI: fSKI, AKI: fSKI, IsCA: true, PathLen: 0, KeyUsageBits: []int{pki.KUKeyCertSign}}, fCA, attackerScheme, rng)
		fDS := pki.Issue(pki.CertSpec{Serial: big.NewInt(22), Issuer: fName, Subject: pki.CountryName(other, "Sim Gov", "DS"), NotBefore: w.DSNotBefore, NotAfter: w.DSNotAfter, Key: attackerKey, SKI: pki.SKIOf(attackerKey), AKI: fSKI, OmitBC: true, PathLen: -1, KeyUsageBits: []int{pki.KUDigitalSignature}}, fCA, attackerScheme, rng)
		cp := &cms.CombinedCertPool{}
		cp.AddCertPool(w.Pool)
		cp.AddCertPool(poolOf(fCert.DER))
		pool = cp
		sp := w.SODSpec
		sp.Signer, sp.SignerCert, sp.Scheme, sp.DigestAlg, sp.ExtraCerts = attackerKey, fDS, attackerScheme, "SHA256", nil
		resign(sp)
	case "A7-anchor-removed":
		pool = poolOf()
	case "A7-anchor-same-ski-other-key":
		k := pki.NewECKey(12, rng, false)
		fake := pki.Issue(pki.CertSpec{Serial: big.NewInt(5), Issuer: w.CSCAName, Subject: w.CSCAName, NotBefore: w.CSCANotBefore, NotAfter: w.CSCANotAfter, Key: k, SKI: cscaSKI, AKI: cscaSKI, IsCA: true, PathLen: 0, KeyUsageBits: []int{pki.KUKeyCertSign}}, k, attackerScheme, rng)
		pool = poolOf(fake.DER)
	case "A7-anchor-not-ca":
		pool = poolOf(issueCSCA(func(s *pki.CertSpec) { s.IsCA, s.OmitBC = false, false; s.PathLen = -1 }).DER)
		note = "BasicConstraints absent (cA defaults to false)"
	case "A7-anchor-bc-ca-false":
		// BasicConstraints present, cA = FALSE (implicit default or explicit), keyCertSign still asserted
		pool = poolOf(issueCSCA(func(s *pki.CertSpec) { s.IsCA = false; s.BCFalse = 1 + c.A%2; s.PathLen = -1 }).DER)
	case "A7-anchor-no-bc":
		pool = poolOf(issueCSCA(func(s *pki.CertSpec) { s.IsCA, s.OmitBC = false, true; s.PathLen = -1 }).DER)
	case "A7-anchor-no-keycertsign":
		if c.A%2 == 0 {
			pool = poolOf(issueCSCA(func(s *pki.CertSpec) { s.KeyUsageBits = []int{pki.KUCRLSign, pki.KUDigitalSignature} }).DER)
		} else {
			pool = poolOf(issueCSCA(func(s *pki.CertSpec) { s.KeyUsageBits = nil }).DER)
		}
	case "A7-anchor-critical-eku":
		pool = poolOf(issueCSCA(func(s *pki.CertSpec) { s.EKU, s.EKUCritical = [][]int{{1, 3, 6, 1, 5, 5, 7, 3, 1}}, true }).DER)
	case "A7-anchor-unknown-critical":
		pool = poolOf(issueCSCA(func(s *pki.CertSpec) { s.UnknownCrit = true }).DER)
	case "A7-ds-no-keyusage", "A7-ds-no-digitalsignature", "A7-ds-unknown-critical":
		ds := issueDS(func(s *pki.CertSpec) {
			switch c.Fault {
			case "A7-ds-no-keyusage":
				s.KeyUsageBits = nil
			case "A7-ds-no-digitalsignature":
				s.KeyUsageBits = []int{pki.KUCRLSign}
			default:
				s.UnknownCrit = true
			}
		}, w.CSCAKey)
		sp := w.SODSpec
		sp.SignerCert = ds
		resign(sp)
	case "A7-time-ds-before", "A7-time-ds-after", "A7-time-csca-after", "A7-time-csca-before":
		// issuer clock skew: the stated signing time falls outside a validity window by one second (or more)
		sp := w.SODSpec
		skew := time.Duration(1+c.A%3*3600) * time.Second
		var t time.Time
		switch c.Fault {
		case "A7-time-ds-before":
			t = w.DSNotBefore.Add(-skew)
		case "A7-time-ds-after":
			t = w.DSNotAfter.Add(skew)
		case "A7-time-csca-after":
			// anchor expired at the signing time while the DS is still valid: re-issue an anchor with a short window
			short := issueCSCA(func(s *pki.CertSpec) { s.NotAfter = w.DSNotBefore.AddDate(0, 6, 0) })
			pool = poolOf(short.DER)
			t = w.DSNotBefore.AddDate(0, 6, 0).Add(skew)
		case "A7-time-csca-before":
			late := issueCSCA(func(s *pki.CertSpec) { s.NotBefore = w.DSNotBefore.AddDate(1, 0, 0) })
			pool = poolOf(late.DER)
			t = w.DSNotBefore.AddDate(1, 0, 0).Add(-skew)
		}
		sp.SigningTime = &t
		resign(sp)
	case "A7-country-mismatch", "A7-country-unmappable":
		other := lds.Countries[(c.Spec.Country+3)%len(lds.Countries)]
		h := w.Holder
		h.Issuer = other[0]
		if c.Fault == "A7-country-unmappable" {
			// an issuing state code without a country behind it (organisations, reserved and unassigned codes)
			h.Issuer = []string{"UNO", "UNA", "EUE", "XXA", "XXB", "XOM", "UTO", "ZZZ", "XPO", "QQQ"}[c.A%10]
		}
		ldsF[chip.FidDG(1)] = lds.DG1(h.MRZ())
		hashes := map[int][]byte{}
		for k, v := range w.DGHashes {
			hashes[k] = v
		}
		hashes[1] = chip.Hash(c.Spec.DGHash, ldsF[chip.FidDG(1)])
		sp := w.SODSpec
		sp.EContent = pki.LDSSecurityObject(c.Spec.LDSVersion, c.Spec.DGHash, hashes, w.DGOrder, "0108", "040000", c.Spec.HashNoParams)
		resign(sp) // genuinely signed, but DG1 names another issuing state than the signer's country
	case "A7-wrong-content-type":
		sp := w.SODSpec
		sp.WrongContentType = true
		resign(sp)
	case "A7-econtenttype-relabelled":
		// the unsigned eContentType label differs from the signed content-type attribute (RFC 5652 5.3: they must agree)
		sp := w.SODSpec
		sp.EncapType = [][]int{{1, 2, 840, 113549, 1, 7, 1}, {2, 23, 136, 1, 1, 2}, {1, 2, 840, 113549, 1, 7, 2}}[c.A%3]
		resign(sp)
	case "A7-wrong-message-digest":
		sp := w.SODSpec
		sp.WrongMessageDigest = true
		resign(sp)
	case "A8-cardsec-econtent", "A8-cardsec-signedattrs":
		cs := bytes.Clone(mfF[chip.FidCardSecurity])
		rg := w.CardSec.Regions[map[string]string{"A8-cardsec-econtent": "eContent", "A8-cardsec-signedattrs": "signedAttrs"}[c.Fault]]
		if rg.Len == 0 {
			applied = false
			break
		}
		cs[rg.Off+c.A%rg.Len] ^= byte(1 << uint(c.B%8))
		mfF[chip.FidCardSecurity] = cs
	case "A8-cardsec-time-ds-after", "A8-cardsec-time-ds-before":
		// issuer clock skew on EF.CardSecurity alone: its own stated signing time lies outside the validity of its
		// signer certificate, while the EF.SOD (with its own, valid signing time) is untouched
		sp := w.CardSec.Spec
		skew := time.Duration(1+c.A%3*3600) * time.Second
		t := sp.SignerCert.Spec.NotAfter.Add(skew)
		if c.Fault == "A8-cardsec-time-ds-before" {
			t = sp.SignerCert.Spec.NotBefore.Add(-skew)
		}
		sp.SigningTime = &t
		mfF[chip.FidCardSecurity] = pki.BuildSignedData(sp, rng).DER
	case "A8-cardsec-resigned-untrusted":
		evilCA := pki.NewECKey(12, rng, false)
		evilName := pki.CountryName(w.Alpha2, "Evil", "CSCA")
		evilDS := pki.Issue(pki.CertSpec{Serial: big.NewInt(10), Issuer: w.CSCAName, Subject: w.DSName, NotBefore: w.DSNotBefore, NotAfter: w.DSNotAfter, Key: attackerKey, SKI: pki.SKIOf(attackerKey), AKI: cscaSKI, OmitBC: true, PathLen: -1, KeyUsageBits: []int{pki.KUDigitalSignature}}, evilCA, attackerScheme, rng)
		_ = evilName
		sp := w.CardSec.Spec
		sp.Signer, sp.SignerCert, sp.Scheme, sp.DigestAlg = attackerKey, evilDS, attackerScheme, "SHA256"
		mfF[chip.FidCardSecurity] = pki.BuildSignedData(sp, rng).DER
	case "A8-cardsec-foreign-signer":
		// EF.CardSecurity validly signed by ANOTHER country's document signer whose CSCA is also in the trust store
		other := lds.Countries[(c.Spec.Country+2)%len(lds.Countries)][1]
		fCA := pki.NewECKey(12, rng, false)
		fName := pki.CountryName(other, "Sim Gov", "CSCA "+other)
		fSKI := pki.SKIOf(fCA)
		fCert := pki.Issue(pki.CertSpec{Serial: big.NewInt(21), Issuer: fName, Subject: fName, NotBefore: w.CSCANotBefore, NotAfter: w.CSCANotAfter, Key: fCA, SKI: fSKI, AKI: fSKI, IsCA: true, PathLen: 0, KeyUsageBits: []int{pki.KUKeyCertSign}}, fCA, attackerScheme, rng)
		fDS := pki.Issue(pki.CertSpec{Serial: big.NewInt(22), Issuer: fName, Subject: pki.CountryName(other, "Sim Gov", "DS"), NotBefore: w.DSNotBefore, NotAfter: w.DSNotAfter, Key: attackerKey, SKI: pki.SKIOf(attackerKey), AKI: fSKI, OmitBC: true, PathLen: -1, KeyUsageBits: []int{pki.KUDigitalSignature}}, fCA, attackerScheme, rng)
		cp := &cms.CombinedCertPool{}
		cp.AddCertPool(w.Pool)
		cp.AddCertPool(poolOf(fCert.DER))
		pool = cp
		sp := w.CardSec.Spec
		sp.Signer, sp.SignerCert, sp.Scheme, sp.DigestAlg = attackerKey, fDS, attackerScheme, "SHA256"
		mfF[chip.FidCardSecurity] = pki.BuildSignedData(sp, rng).DER
	case "A9-ml-tampered", "A9-ml-wrong-root", "A9-ml-signer-unchained", "A9-ml-signer-no-ku", "A9-ml-byte", "A9-ml-own-anchor", "A9-ml-self-issued-signer":
		return runMasterList(out, c, w, rng, log)
	case "A10-sod-byte", "A10-cardsec-byte":
		var blob []byte
		var sd *pki.SignedData
		hdr := 0
		if c.Fault == "A10-sod-byte" {
			blob, sd = bytes.Clone(ldsF[chip.FidSOD]), w.SOD
			hdr = len(blob) - len(sd.DER)
		} else {
			blob, sd = bytes.Clone(mfF[chip.FidCardSecurity]), w.CardSec
		}
		pos := c.A % len(blob)
		v := byte(c.B)
		if v == blob[pos] {
			v ^= 0x40
		}
		blob[pos] = v
		region := "other"
		for name, rg := range sd.Regions {
			if pos-hdr >= rg.Off && pos-hdr < rg.Off+rg.Len {
				region = name
			}
		}
		note = region
		switch region {
		case "eContent", "signedAttrs", "dsTBS":
			mustReject = true
		case "siSignature":
			sig := bytes.Clone(sd.Sig)
			rg := sd.Regions[region]
			sig[pos-hdr-rg.Off] = v
			sch := sd.Spec.Scheme
			sch.Hash = sd.Spec.DigestAlg
			mustReject = !sd.Spec.Signer.Verify(sch, sd.SignedAttrs, sig)
			if !mustReject {
				out.Probe("malleable_signature_still_valid")
			}
		case "dsSignature":
			sig := bytes.Clone(w.DSCert.Sig)
			rg := sd.Regions[region]
			sig[pos-hdr-rg.Off] = v
			mustReject = !w.CSCAKey.Verify(c.Spec.CSCAScheme2(), w.DSCert.TBS, sig)
			if !mustReject {
				out.Probe("malleable_signature_still_valid")
			}
		default:
			mustReject = false // unauthenticated fields / length octets: no demand
		}
		if c.Fault == "A10-sod-byte" {
			ldsF[chip.FidSOD] = blob
		} else {
			mfF[chip.FidCardSecurity] = blob
		}
	default:
		out.Discarded = "unknown-fault"
		return out
	}
	if !applied {
		out.Discarded = "fault-not-applicable"
		return out
	}
	out.Fault(c.Fault)
	log.Add("fault", []byte(c.Fault), ldsF[chip.FidSOD])
	d, err, pan := buildDocument(w, ldsF, mfF)
	verdict := "rejected-by-constructor"
	accepted := false
	if pan != nil {
		out.Violate("C12", "panic-in-constructor", c.Fault, "file constructors panicked on a forged/corrupted document: %v", pan)
		verdict = "panic"
	} else if err == nil {
		res, _, pan := runPA(out, d, pool)
		if pan == nil {
			accepted = res != nil && res.Success
			verdict = "rejected-by-pa"
			if accepted {
				verdict = "accepted"
			}
			ex := &document.DocumentEx{Document: *d}
			ex.Session.PassiveAuthResult = res
			ex.Session.DocumentVerifyErr = d.Verify()
			trustInvariant(out, ex, "pki-forgery")
		}
	}
	log.Add("verdict", []byte(verdict))
	if accepted && mustReject {
		out.Violate("C01", "forgery-accepted", c.Fault+"/"+note, "passive authentication succeeded for fault %s (%s) on profile %s", c.Fault, note, profileKey(c.Spec))
	}
	if accepted && !mustReject {
		out.Probe("benign_mutation_accepted")
	}
	out.Fingerprint = log.Fingerprint()
	out.Key = fmt.Sprintf("%s|%s|%s|%s|%s", c.Fault, note, keyKey(c.Spec.CSCA, c.Spec.CSCAScheme), keyKey(c.Spec.DS, c.Spec.DSScheme), verdict)
	return out
}

// runMasterList: A9 — a master list enters a trust store only after SignedData.Verify against the supplied root.
func runMasterList(out *core.Outcome, c ForgeryCase, w *world.World, rng *core.Rng, log *term.EventLog) *core.Outcome {
	// master list signer certificate issued by the CSCA (the "root" the operator supplies)
	mlKey := pki.NewECKey(12, rng, false)
	sch := pki.Scheme{Kind: "ecdsa", Hash: "SHA256"}
	cscaSKI := pki.SKIOf(w.CSCAKey)
	ku := []int{pki.KUDigitalSignature}
	if c.Fault == "A9-ml-signer-no-ku" {
		ku = nil
	}
	signerIssuerKey := w.CSCAKey
	signerIssuerScheme := c.Spec.CSCAScheme2()
	if c.Fault == "A9-ml-signer-unchained" {
		signerIssuerKey = pki.NewECKey(12, rng, false) // names the root as issuer but is signed by someone else
		signerIssuerScheme = sch
	}
	mlCert := pki.Issue(pki.CertSpec{Serial: big.NewInt(31), Issuer: w.CSCAName, Subject: pki.CountryName(w.Alpha2, "Sim Gov", "Master List Signer"), NotBefore: w.DSNotBefore, NotAfter: w.DSNotAfter,
		Key: mlKey, SKI: pki.SKIOf(mlKey), AKI: cscaSKI, OmitBC: true, PathLen: -1, KeyUsageBits: ku}, signerIssuerKey, signerIssuerScheme, rng)
	// list content: this CSCA plus a few others
	var listed []*pki.Cert
	listed = append(listed, w.CSCACert)
	for i := 0; i < 2; i++ {
		k := pki.NewECKey(12, rng, false)
		cc := lds.Countries[(c.Spec.Country+1+i)%len(lds.Countries)][1]
		n := pki.CountryName(cc, "Sim Gov", "CSCA "+cc)
		ski := pki.SKIOf(k)
		listed = append(listed, pki.Issue(pki.CertSpec{Serial: big.NewInt(int64(40 + i)), Issuer: n, Subject: n, NotBefore: w.CSCANotBefore, NotAfter: w.CSCANotAfter, Key: k, SKI: ski, AKI: ski, IsCA: true, PathLen: 0, KeyUsageBits: []int{pki.KUKeyCertSign}}, k, sch, rng))
	}
	t := w.SignTime
	sd := pki.BuildSignedData(pki.SignedDataSpec{EContentType: pki.OidCscaMasterList, EContent: pki.MasterList(listed), DigestAlg: "SHA256", Scheme: sch, Signer: mlKey, SignerCert: mlCert, SIDForm: "issuerSerial", SigningTime: &t}, rng)
	root := w.CSCACert.DER
	blob := bytes.Clone(sd.DER)
	// genuine first
	if c.Fault != "A9-ml-signer-unchained" && c.Fault != "A9-ml-signer-no-ku" {
		p, err := cms.CreateCertPoolFromSignedData(blob, root)
		if err != nil || p == nil || p.Count() != len(listed) {
			out.Violate("C09", "genuine-master-list-rejected", profileKey(c.Spec), "correctly signed master list rejected: %v", err)
			out.Discarded = "genuine-master-list-rejected"
			return out
		}
	}
	mustReject := true
	note := ""
	switch c.Fault {
	case "A9-ml-tampered":
		rg := sd.Regions["eContent"]
		blob[rg.Off+c.A%rg.Len] ^= byte(1 << uint(c.B%8))
	case "A9-ml-wrong-root":
		k := pki.NewECKey(12, rng, false)
		fake := pki.Issue(pki.CertSpec{Serial: big.NewInt(5), Issuer: w.CSCAName, Subject: w.CSCAName, NotBefore: w.CSCANotBefore, NotAfter: w.CSCANotAfter, Key: k, SKI: cscaSKI, AKI: cscaSKI, IsCA: true, PathLen: 0, KeyUsageBits: []int{pki.KUKeyCertSign}}, k, sch, rng)
		root = fake.DER
	case "A9-ml-own-anchor", "A9-ml-self-issued-signer":
		// a list forged by someone who is not under the supplied root and who ships their own trust anchor along:
		// (a) an attacker CA (self-signed, cA, keyCertSign) issues the list signer and is itself listed and embedded;
		// (b) the signer certificate is self-issued, CA-capable, carries digitalSignature and names itself as authority
		ak := pki.NewECKey(12, rng, false)
		an := pki.CountryName(w.Alpha2, "Sim Gov", "CSCA rollover")
		aski := pki.SKIOf(ak)
		var signerCert *pki.Cert
		var signerKey *pki.Key
		var extra []*pki.Cert
		if c.Fault == "A9-ml-own-anchor" {
			aCA := pki.Issue(pki.CertSpec{Serial: big.NewInt(77), Issuer: an, Subject: an, NotBefore: w.CSCANotBefore, NotAfter: w.CSCANotAfter, Key: ak, SKI: aski, AKI: aski, IsCA: true, PathLen: 0, KeyUsageBits: []int{pki.KUKeyCertSign, pki.KUCRLSign}}, ak, sch, rng)
			signerKey = pki.NewECKey(12, rng, false)
			signerCert = pki.Issue(pki.CertSpec{Serial: big.NewInt(78), Issuer: an, Subject: pki.CountryName(w.Alpha2, "Sim Gov", "Master List Signer"), NotBefore: w.DSNotBefore, NotAfter: w.DSNotAfter,
				Key: signerKey, SKI: pki.SKIOf(signerKey), AKI: aski, OmitBC: true, PathLen: -1, KeyUsageBits: []int{pki.KUDigitalSignature}}, ak, sch, rng)
			extra = []*pki.Cert{aCA}
			listed = append(listed, aCA)
		} else {
			signerKey = ak
			signerCert = pki.Issue(pki.CertSpec{Serial: big.NewInt(79), Issuer: an, Subject: an, NotBefore: w.CSCANotBefore, NotAfter: w.CSCANotAfter, Key: ak, SKI: aski, AKI: aski, IsCA: true, PathLen: 0,
				KeyUsageBits: []int{pki.KUDigitalSignature, pki.KUKeyCertSign, pki.KUCRLSign}}, ak, sch, rng)
			listed = append(listed, signerCert)
		}
		forged := pki.BuildSignedData(pki.SignedDataSpec{EContentType: pki.OidCscaMasterList, EContent: pki.MasterList(listed), DigestAlg: "SHA256", Scheme: sch, Signer: signerKey, SignerCert: signerCert,
			ExtraCerts: extra, ExtraFirst: c.A%2 == 1, SIDForm: []string{"issuerSerial", "ski"}[c.B%2], SigningTime: &t}, rng)
		blob = forged.DER
	case "A9-ml-byte":
		pos := c.A % len(blob)
		v := byte(c.B)
		if v == blob[pos] {
			v ^= 0x40
		}
		blob[pos] = v
		region := "other"
		for name, rg := range sd.Regions {
			if pos >= rg.Off && pos < rg.Off+rg.Len {
				region = name
			}
		}
		note = region
		switch region {
		case "eContent", "signedAttrs", "dsTBS":
		case "siSignature":
			sig := bytes.Clone(sd.Sig)
			sig[pos-sd.Regions[region].Off] = v
			mustReject = !mlKey.Verify(sch, sd.SignedAttrs, sig)
		case "dsSignature":
			sig := bytes.Clone(mlCert.Sig)
			sig[pos-sd.Regions[region].Off] = v
			mustReject = !w.CSCAKey.Verify(c.Spec.CSCAScheme2(), mlCert.TBS, sig)
		default:
			mustReject = false
		}
	}
	out.Fault(c.Fault)
	var p *cms.SignedDataCertPool
	var err error
	var pan any
	func() {
		defer func() { pan = recover() }()
		p, err = cms.CreateCertPoolFromSignedData(blob, root)
	}()
	verdict := "rejected"
	if pan != nil {
		out.Violate("C12", "panic-in-master-list", c.Fault, "CreateCertPoolFromSignedData panicked: %v", pan)
		verdict = "panic"
	} else if err == nil && p != nil {
		verdict = "pool-returned"
		if mustReject {
			out.Violate("C01", "master-list-accepted", c.Fault+"/"+note, "CreateCertPoolFromSignedData returned a pool (%d certs) for fault %s (%s)", p.Count(), c.Fault, note)
		} else {
			out.Probe("benign_mutation_accepted")
		}
	}
	log.Add("ml", []byte(c.Fault), []byte(verdict))
	out.Fingerprint = log.Fingerprint()
	out.Key = fmt.Sprintf("%s|%s|%s|%s", c.Fault, note, keyKey(c.Spec.CSCA, c.Spec.CSCAScheme), verdict)
	return out
}
