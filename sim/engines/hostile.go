package engines

import (
	"bytes"
	"encoding/json"
	"errors"
	"fmt"
	"math/big"

	"github.com/gmrtd/gmrtd/document"

	"verif/sim/chip"
	"verif/sim/core"
	"verif/sim/lds"
	"verif/sim/pki"
	"verif/sim/world"
)

// hostile-chip engine (C02): adversarial chip behaviours in an end-to-end read, live and then
// offline (serialise the live result, verify it); plus the exhaustive sweep of step-outcome
// combinations against the gating invariant.

type HostileCase struct {
	Spec world.WorldSpec `json:"spec"`
	Kind string          `json:"kind"`
}

var hostileKinds = []string{
	"clone-no-keys", "clone-substituted-aa-key", "clone-substituted-ca-key", "clone-substituted-keys-resigned-untrusted",
	"stripped-dg14", "stripped-dg15", "cardaccess-extra-info", "cardaccess-downgraded", "cam-cardsec-untrusted", "cam-substituted-key-resigned-untrusted", "cam-clone-swaps-cardsec", "cardaccess-foreign-info-no-pace", "genuine",
}

type HostileEngine struct{}

func (HostileEngine) Name() string { return "hostile-chip" }
func (HostileEngine) Decode(raw json.RawMessage) (any, error) {
	var c HostileCase
	err := json.Unmarshal(raw, &c)
	return c, err
}

func (HostileEngine) Gen(prop, tier string, seed uint64, yield func(c any) bool) {
	n := 2600
	if tier == "thorough" {
		n = 60000
	}
	rng := core.NewRng(core.SubSeed(seed, "hostile", tier))
	for i := 0; i < n; i++ {
		kind := hostileKinds[i%len(hostileKinds)]
		s := genEvidenceWorld(rng, i/len(hostileKinds))
		s.Untrusted = (i/len(hostileKinds))%3 == 2
		// make sure the mechanisms the scenario is about exist
		switch kind {
		case "clone-substituted-aa-key", "stripped-dg15":
			if s.AA == nil {
				s.AA = &world.AASpec{Kind: core.Pick(rng, []string{"rsa", "ec"}), Bits: 1024, CurveID: core.Pick(rng, chip.AllParamIDs), Hash: "SHA256"}
			}
		case "clone-substituted-ca-key", "stripped-dg14":
			if s.CA == nil {
				s.CA = &world.CASpec{CurveID: core.Pick(rng, chip.AllParamIDs), Suites: []string{core.Pick(rng, allSuites)}}
			}
			for j := range s.PACE {
				s.PACE[j].CAM = false
			}
			s.PACE = dedupPace(s.PACE)
			if kind == "clone-substituted-ca-key" {
				s.AA = nil
			}
		case "clone-no-keys", "clone-substituted-keys-resigned-untrusted":
			if s.AA == nil && s.CA == nil {
				s.AA = &world.AASpec{Kind: "ec", CurveID: 12}
			}
			for j := range s.PACE {
				s.PACE[j].CAM = false
			}
			s.PACE = dedupPace(s.PACE)
		case "cardaccess-extra-info", "cardaccess-downgraded":
			if len(s.PACE) == 0 {
				s.PACE = []world.PaceSpec{{Suite: chip.AES128, ParamID: 13}}
			}
			for j := range s.PACE {
				s.PACE[j].CAM = false
			}
			s.PACE = dedupPace(s.PACE)
			if kind == "cardaccess-downgraded" && len(s.PACE) < 2 {
				s.PACE = append(s.PACE, world.PaceSpec{Suite: chip.TDES, ParamID: s.PACE[0].ParamID})
				s.PACE = dedupPace(s.PACE)
				if len(s.PACE) < 2 {
					s.PACE = append(s.PACE, world.PaceSpec{Suite: chip.AES256, ParamID: s.PACE[0].ParamID})
				}
			}
			s.PaceJunk = 0
		case "cardaccess-foreign-info-no-pace":
			// a BAC chip with DG14 whose EF.CardAccess holds no PACE info at all, only entries DG14 does not contain
			s.PACE, s.PaceJunk, s.BAC = nil, 0, true
			if s.Password == "can" {
				s.Password = "mrz"
			}
			if s.CA == nil {
				s.CA = &world.CASpec{CurveID: core.Pick(rng, chip.AllParamIDs), Suites: []string{core.Pick(rng, allSuites)}}
			}
		case "cam-cardsec-untrusted", "cam-substituted-key-resigned-untrusted", "cam-clone-swaps-cardsec":
			s.PACE = []world.PaceSpec{{Suite: core.Pick(rng, aesSuites), CAM: true, ParamID: core.Pick(rng, chip.AllParamIDs)}}
			s.AA, s.CA = nil, nil
			if s.Password == "dg1" {
				s.Password = "mrz"
			}
		}
		if kind == "stripped-dg14" || kind == "stripped-dg15" {
			// both files referenced by the security object in most runs, in every order of the hash list
			if s.AA == nil && rng.Chance(2, 3) {
				s.AA = &world.AASpec{Kind: "ec", CurveID: core.Pick(rng, chip.AllParamIDs)}
			}
			if s.CA == nil && rng.Chance(2, 3) {
				s.CA = &world.CASpec{CurveID: core.Pick(rng, chip.AllParamIDs), Suites: []string{core.Pick(rng, allSuites)}}
			}
			s.HashOrder = core.Pick(rng, []int{0, 1, 2, 3, 3, 4, 4})
		}
		if len(s.PACE) == 0 && !s.BAC {
			s.BAC = true
		}
		if len(s.PACE) == 0 && s.Password == "can" {
			s.Password = "mrz"
		}
		if !yield(HostileCase{Spec: s, Kind: kind}) {
			return
		}
	}
}

func dedupPace(ps []world.PaceSpec) []world.PaceSpec {
	var out []world.PaceSpec
	for _, p := range ps {
		dup := false
		for _, q := range out {
			if p == q {
				dup = true
			}
		}
		if !dup {
			out = append(out, p)
		}
	}
	return out
}

func (HostileEngine) Shrink(ci any) []any {
	c := ci.(HostileCase)
	var out []any
	for _, y := range (E2EEngine{}).Shrink(E2ECase{Spec: c.Spec, Envelope: true}) {
		s := y.(E2ECase).Spec
		out = append(out, HostileCase{Spec: s, Kind: c.Kind})
	}
	return out
}

// resignSOD rebuilds EF.SOD over the world's current LDS files, signed by the given DS.
func resignSOD(w *world.World, signer *pki.Key, cert *pki.Cert, sch pki.Scheme, rng *core.Rng) {
	hashes := map[int][]byte{}
	var order []int
	for n := 1; n <= 16; n++ {
		if f, ok := w.LDS[chip.FidDG(n)]; ok {
			hashes[n] = chip.Hash(w.Spec.DGHash, f)
			order = append(order, n)
		}
	}
	sp := w.SODSpec
	sp.EContent = pki.LDSSecurityObject(w.Spec.LDSVersion, w.Spec.DGHash, hashes, order, "0108", "040000", w.Spec.HashNoParams)
	sp.Signer, sp.SignerCert, sp.Scheme, sp.DigestAlg, sp.ExtraCerts = signer, cert, sch, sch.Hash, nil
	w.LDS[chip.FidSOD] = pki.WrapSOD(pki.BuildSignedData(sp, rng).DER)
}

func untrustedDS(w *world.World, rng *core.Rng) (*pki.Key, *pki.Cert, pki.Scheme) {
	evilCA := pki.NewECKey(12, rng, false)
	k := pki.NewECKey(12, rng, false)
	sch := pki.Scheme{Kind: "ecdsa", Hash: "SHA256"}
	cert := pki.Issue(pki.CertSpec{Serial: big.NewInt(666), Issuer: w.CSCAName, Subject: w.DSName, NotBefore: w.DSNotBefore, NotAfter: w.DSNotAfter, Key: k, SKI: pki.SKIOf(k), AKI: pki.SKIOf(w.CSCAKey), OmitBC: true, PathLen: -1, KeyUsageBits: []int{pki.KUDigitalSignature}}, evilCA, sch, rng)
	return k, cert, sch
}

// applyHostile turns the personalised chip of a genuine world into the adversarial one.
func applyHostile(w *world.World, kind string) (applied bool) {
	rng := core.NewRng(core.SubSeed(w.Spec.Seed, "hostile", kind))
	newAA := func() {
		if w.Pers.AA == nil {
			return
		}
		old := w.Pers.AA
		na := *old
		if old.N != nil {
			ks := pki.RSAByBits(old.N.BitLen())
			for _, k := range ks {
				if k.N.Cmp(old.N) != 0 {
					na.N, na.D = k.N, k.D
				}
			}
			if na.N.Cmp(old.N) == 0 {
				k := pki.RSAByBits(2048)[0]
				na.N, na.D = k.N, k.D
			}
		} else {
			n := old.Curve.Params().N
			d := new(big.Int).SetBytes(rng.Bytes((n.BitLen() + 7) / 8))
			d.Mod(d, n)
			d.Add(d, big.NewInt(1))
			na.ECD = d
		}
		w.Pers.AA = &na
	}
	newCA := func() []chip.CAKey {
		var out []chip.CAKey
		for _, k := range w.Pers.CAKeys {
			n := k.Curve.Params().N
			d := new(big.Int).SetBytes(rng.Bytes((n.BitLen() + 7) / 8))
			d.Mod(d, n)
			d.Add(d, big.NewInt(1))
			out = append(out, chip.NewCAKey(k.Curve, d, k.KeyID))
		}
		return out
	}
	aaSPKI := func() []byte {
		a := w.Pers.AA
		if a.N != nil {
			return (&pki.Key{RSA: &pki.RSAKey{Bits: a.N.BitLen(), N: a.N, D: a.D, E: 65537}}).SPKI()
		}
		x, y := a.Curve.ScalarBaseMult(a.ECD.Bytes())
		return (&pki.Key{CurveID: w.Spec.AA.CurveID, Curve: a.Curve, D: a.ECD, X: x, Y: y, Explicit: w.Spec.AA.Explicit}).SPKI()
	}
	rewriteDG14 := func(keys []chip.CAKey) {
		// replace every public point in DG14 by the substituted key's point (same encoding length)
		f := bytes.Clone(w.LDS[chip.FidDG(14)])
		for i, k := range w.Pers.CAKeys {
			oldPt := chip.EncodePoint(k.Curve, k.X, k.Y)
			newPt := chip.EncodePoint(keys[i].Curve, keys[i].X, keys[i].Y)
			f = bytes.Replace(f, oldPt, newPt, -1)
		}
		w.LDS[chip.FidDG(14)] = f
	}
	switch kind {
	case "genuine":
		return true
	case "clone-no-keys":
		// all files copied verbatim; the clone signs / agrees with keys of its own
		newAA()
		w.Pers.CAKeys = newCA()
		return w.Pers.AA != nil || len(w.Pers.CAKeys) > 0
	case "clone-substituted-aa-key":
		if w.Pers.AA == nil {
			return false
		}
		newAA()
		w.LDS[chip.FidDG(15)] = lds.DG15(aaSPKI())
		return true
	case "clone-substituted-ca-key":
		if len(w.Pers.CAKeys) == 0 || w.LDS[chip.FidDG(14)] == nil {
			return false
		}
		keys := newCA()
		rewriteDG14(keys)
		w.Pers.CAKeys = keys
		return true
	case "clone-substituted-keys-resigned-untrusted":
		if w.Pers.AA != nil {
			newAA()
			w.LDS[chip.FidDG(15)] = lds.DG15(aaSPKI())
		}
		if len(w.Pers.CAKeys) > 0 && w.LDS[chip.FidDG(14)] != nil {
			keys := newCA()
			rewriteDG14(keys)
			w.Pers.CAKeys = keys
		}
		k, cert, sch := untrustedDS(w, rng)
		resignSOD(w, k, cert, sch, rng)
		return true
	case "stripped-dg14":
		if w.LDS[chip.FidDG(14)] == nil {
			return false
		}
		delete(w.LDS, chip.FidDG(14))
		newAA()
		w.Pers.CAKeys = newCA() // a clone: it withholds DG14 because it cannot pass CA
		return true
	case "stripped-dg15":
		if w.LDS[chip.FidDG(15)] == nil {
			return false
		}
		delete(w.LDS, chip.FidDG(15))
		newAA()
		w.Pers.CAKeys = newCA()
		return true
	case "cardaccess-extra-info":
		ca := w.MF[chip.FidCardAccess]
		if ca == nil || w.LDS[chip.FidDG(14)] == nil {
			return false
		}
		// add a PACEInfo that DG14 does not contain (the chip really supports it, so PACE still runs)
		extra := world.PaceSpec{Suite: chip.AES192, ParamID: 12}
		for _, p := range w.Spec.PACE {
			if p == extra {
				extra = world.PaceSpec{Suite: chip.AES256, ParamID: 15}
			}
		}
		oid := chip.PaceOID(extra.Suite, false)
		w.Pers.PACE = append(w.Pers.PACE, chip.PaceSupport{OID: oid, Suite: extra.Suite, ParamID: extra.ParamID})
		ts, err := chip.ParseTLVs(ca)
		if err != nil || len(ts) != 1 {
			return false
		}
		w.MF[chip.FidCardAccess] = chip.EncTLV(0x31, append(bytes.Clone(ts[0].Val), lds.PACEInfo(oid, extra.ParamID)...))
		return true
	case "cardaccess-downgraded":
		ca := w.MF[chip.FidCardAccess]
		if ca == nil || w.LDS[chip.FidDG(14)] == nil || len(w.Spec.PACE) < 2 {
			return false
		}
		// advertise only the weakest protocol, with a parameter set DG14 does not list for it
		weakest := w.Spec.PACE[0]
		for _, p := range w.Spec.PACE {
			if suiteRank(p.Suite) < suiteRank(weakest.Suite) {
				weakest = p
			}
		}
		alt := 8 + (weakest.ParamID-8+1)%11
		for tries := 0; tries < 11; tries++ {
			clash := false
			for _, p := range w.Spec.PACE {
				if p.Suite == weakest.Suite && p.ParamID == alt {
					clash = true // that info is genuinely listed in DG14: it would not be a downgrade
				}
			}
			if !clash {
				break
			}
			alt = 8 + (alt-8+1)%11
		}
		oid := chip.PaceOID(weakest.Suite, false)
		w.Pers.PACE = []chip.PaceSupport{{OID: oid, Suite: weakest.Suite, ParamID: alt}}
		w.MF[chip.FidCardAccess] = chip.EncTLV(0x31, lds.PACEInfo(oid, alt))
		return true
	case "cam-cardsec-untrusted":
		if w.CardSec == nil {
			return false
		}
		k, cert, sch := untrustedDS(w, rng)
		sp := w.CardSec.Spec
		sp.Signer, sp.SignerCert, sp.Scheme, sp.DigestAlg = k, cert, sch, sch.Hash
		w.MF[chip.FidCardSecurity] = pki.BuildSignedData(sp, rng).DER
		return true
	case "cam-substituted-key-resigned-untrusted":
		if w.CardSec == nil {
			return false
		}
		keys := newCA()
		cs := w.CardSec.Spec
		old := w.Pers.CAKeys[w.Pers.CAMKey]
		cs.EContent = bytes.Replace(cs.EContent, chip.EncodePoint(old.Curve, old.X, old.Y), chip.EncodePoint(keys[w.Pers.CAMKey].Curve, keys[w.Pers.CAMKey].X, keys[w.Pers.CAMKey].Y), -1)
		k, cert, sch := untrustedDS(w, rng)
		cs.Signer, cs.SignerCert, cs.Scheme, cs.DigestAlg = k, cert, sch, sch.Hash
		w.MF[chip.FidCardSecurity] = pki.BuildSignedData(cs, rng).DER
		w.Pers.CAKeys = keys
		return true
	case "cardaccess-foreign-info-no-pace":
		if w.LDS[chip.FidDG(14)] == nil {
			return false
		}
		var infos [][]byte
		switch rng.Intn(3) {
		case 0:
			infos = append(infos, lds.UnknownInfo(rng))
		case 1:
			id := int64(rng.Range(400, 900))
			infos = append(infos, lds.ChipAuthInfo(chip.CAOID(chip.AES128), &id))
		default:
			infos = append(infos, lds.UnknownInfo(rng), lds.TerminalAuthInfo(), lds.UnknownInfo(rng))
		}
		w.MF[chip.FidCardAccess] = lds.SecurityInfos(infos, true)
		return true
	case "cam-clone-swaps-cardsec":
		// a clone with its own key pair that answers the first read of EF.CardSecurity with a copy carrying its own key
		// (signed by nobody the terminal trusts) and every later read with the genuine file
		if w.CardSec == nil {
			return false
		}
		keys := newCA()
		cs := w.CardSec.Spec
		old := w.Pers.CAKeys[w.Pers.CAMKey]
		cs.EContent = bytes.Replace(cs.EContent, chip.EncodePoint(old.Curve, old.X, old.Y), chip.EncodePoint(keys[w.Pers.CAMKey].Curve, keys[w.Pers.CAMKey].X, keys[w.Pers.CAMKey].Y), -1)
		k, cert, sch := untrustedDS(w, rng)
		cs.Signer, cs.SignerCert, cs.Scheme, cs.DigestAlg = k, cert, sch, sch.Hash
		w.Pers.FirstServe = map[uint16][]byte{chip.FidCardSecurity: pki.BuildSignedData(cs, rng).DER}
		w.Pers.CAKeys = keys
		return true
	}
	return false
}

func suiteRank(s string) int {
	return map[string]int{chip.TDES: 0, chip.AES128: 1, chip.AES192: 2, chip.AES256: 3}[s]
}

func (HostileEngine) Run(prop string, ci any) *core.Outcome {
	c := ci.(HostileCase)
	out := &core.Outcome{}
	applied := false
	r := runRead(c.Spec, nil, out, func(r *ReadRun) { applied = applyHostile(r.W, c.Kind) })
	out.Exchanges = r.Link.N
	out.Fingerprint = r.Link.Log.Fingerprint()
	if !applied {
		out.Discarded = "hostile-kind-not-applicable"
		return out
	}
	out.Fault("hostile_" + c.Kind)
	if r.Panic != nil {
		out.Violate("C11", "panic", "hostile/"+c.Kind, "panic escaped ReadDocument against a hostile chip: %v", r.Panic)
		return out
	}
	if r.Doc == nil {
		out.Discarded = "no-document"
		return out
	}
	type view struct {
		name string
		d    *document.DocumentEx
	}
	views := []view{{"live", r.Doc}}
	// offline: serialise the live result and verify it with the same trust store
	if blob, err := r.Doc.ToCbor(); err == nil {
		if off, verr, pan := verifyBlob(out, r.W, blob, nil, "hostile "+c.Kind); !pan && verr == nil && off != nil {
			views = append(views, view{"offline", off})
		}
	}
	verd := ""
	for _, v := range views {
		trustInvariant(out, v.d, "hostile-"+v.name)
		sum := v.d.Summary()
		authentic := int(sum.ChipAuthenticity) != document.CHIP_AUTH_STATUS_NONE
		sig := c.Kind + "/" + v.name
		verd += fmt.Sprintf("%s:%v/%v ", v.name, sum.DataTrusted, authentic)
		switch c.Kind {
		case "genuine":
			// control: nothing demanded beyond the invariant
		case "clone-no-keys":
			if authentic {
				out.Violate("C02", "clone-chip-authentic", sig, "a clone without the private keys is reported chip-authentic (%v)", sum.ChipAuthenticity)
			}
		case "clone-substituted-aa-key", "clone-substituted-ca-key", "clone-substituted-keys-resigned-untrusted":
			if authentic || sum.DataTrusted {
				out.Violate("C02", "clone-trusted", sig, "a clone with a substituted key pair yields DataTrusted=%v ChipAuthenticity=%v", sum.DataTrusted, sum.ChipAuthenticity)
			}
		case "stripped-dg14", "stripped-dg15":
			if sum.DataTrusted || authentic {
				out.Violate("C02", "stripped-file-trusted", sig, "the chip withheld a DG14/DG15 still referenced by the security object, yet DataTrusted=%v ChipAuthenticity=%v", sum.DataTrusted, sum.ChipAuthenticity)
			}
		case "cardaccess-extra-info", "cardaccess-downgraded", "cardaccess-foreign-info-no-pace":
			if sum.DataTrusted {
				out.Violate("C02", "cardaccess-mismatch-trusted", sig, "EF.CardAccess carries security infos that DG14 does not contain, yet DataTrusted=true")
			}
		case "cam-clone-swaps-cardsec":
			if authentic {
				out.Violate("C02", "clone-chip-authentic", sig, "a clone that swaps EF.CardSecurity between reads is reported chip-authentic (%v)", sum.ChipAuthenticity)
			}
		case "cam-cardsec-untrusted", "cam-substituted-key-resigned-untrusted":
			if authentic || sum.DataTrusted {
				out.Violate("C02", "cam-unauthenticated-cardsec", sig, "PACE-CAM against a CardSecurity that does not verify, yet DataTrusted=%v ChipAuthenticity=%v", sum.DataTrusted, sum.ChipAuthenticity)
			}
		}
	}
	stepsVsChip(out, "C02", r)
	smExchangeOracle(out, "C11", r)
	out.Key = fmt.Sprintf("%s|%s|untrusted=%v|%s|%s|%s", c.Kind, accessKey(c.Spec), c.Spec.Untrusted, caKey(c.Spec), aaKey(c.Spec), verd)
	return out
}

// ------------------------------------------------------------------ exhaustive sweep of step outcomes

type SweepCase struct {
	PA, CardSec, AA, CAM, CA, Verify int
}

type SweepEngine struct{}

func (SweepEngine) Name() string { return "session-sweep" }
func (SweepEngine) Decode(raw json.RawMessage) (any, error) {
	var c SweepCase
	err := json.Unmarshal(raw, &c)
	return c, err
}
func (SweepEngine) Shrink(any) []any { return nil }

func (SweepEngine) Gen(prop, tier string, seed uint64, yield func(c any) bool) {
	for pa := 0; pa < 3; pa++ {
		for cs := 0; cs < 2; cs++ {
			for aa := 0; aa < 3; aa++ {
				for cam := 0; cam < 3; cam++ {
					for ca := 0; ca < 3; ca++ {
						for v := 0; v < 2; v++ {
							if !yield(SweepCase{pa, cs, aa, cam, ca, v}) {
								return
							}
						}
					}
				}
			}
		}
	}
}

func (SweepEngine) Run(prop string, ci any) *core.Outcome {
	c := ci.(SweepCase)
	out := &core.Outcome{}
	var d document.DocumentEx
	s := &d.Session
	switch c.PA {
	case 1:
		s.PassiveAuthResult = &document.PassiveAuthResult{Success: false}
		s.PassiveAuthErr = errors.New("pa failed")
	case 2:
		s.PassiveAuthResult = &document.PassiveAuthResult{Success: true, Sod: document.NewPassiveAuth(nil)}
	}
	if c.CardSec == 1 && s.PassiveAuthResult != nil {
		s.PassiveAuthResult.CardSec = document.NewPassiveAuth(nil)
	}
	switch c.AA {
	case 1:
		s.ActiveAuthResult = &document.ActiveAuthResult{Success: false}
	case 2:
		s.ActiveAuthResult = &document.ActiveAuthResult{Success: true}
	}
	switch c.CAM {
	case 1:
		s.PaceCamResult = &document.PaceCamResult{Success: false}
	case 2:
		s.PaceCamResult = &document.PaceCamResult{Success: true}
	}
	switch c.CA {
	case 1:
		s.ChipAuthResult = &document.ChipAuthResult{Success: false}
	case 2:
		s.ChipAuthResult = &document.ChipAuthResult{Success: true}
	}
	if c.Verify == 1 {
		s.DocumentVerifyErr = errors.New("incomplete")
	}
	var pan any
	func() {
		defer func() { pan = recover() }()
		trustInvariant(out, &d, fmt.Sprintf("sweep/%+v", c))
	}()
	if pan != nil {
		out.Violate("C02", "panic-in-summary", "sweep", "Summary panicked for outcome combination %+v: %v", c, pan)
	}
	sum := d.Summary()
	out.Fingerprint = fmt.Sprintf("%v/%d", sum.DataTrusted, int(sum.ChipAuthenticity))
	out.Key = fmt.Sprintf("sweep|%+v|%s", c, out.Fingerprint)
	out.Probe("sweep_combination")
	return out
}
