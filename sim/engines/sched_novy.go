//go:build !vyinstr

package engines

const vyInstrumented = false

func vyHookInstall(bool) {}
