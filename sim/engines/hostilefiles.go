package engines

import (
	"bytes"
	"encoding/json"
	"errors"
	"fmt"
	"runtime"

	"github.com/gmrtd/gmrtd/document"

	"verif/sim/chip"
	"verif/sim/core"
	"verif/sim/term"
	"verif/sim/world"
)

// hostile-files engine (C12, boundary-scoped): a byzantine chip serves adversarial file contents
// through real reads, so every LDS constructor, tlv.Decode, CMS/certificate parsing, MRZ decoding and
// the ISO 19794/39794 parsers are driven from the Transceiver seam. Generators are structure-aware
// and start from the genuine files of the run's world.

type HostileFileCase struct {
	Spec world.WorldSpec `json:"spec"`
	File string          `json:"file"` // cardaccess | sod | com | dg1 | dg2 | dg7 | dg11 | dg12 | dg13 | dg14 | dg15 | dg16 | cardsecurity
	Mut  string          `json:"mut"`
	A    int             `json:"a,omitempty"`
	B    int             `json:"b,omitempty"`
}

var hostileFileMuts = []string{"bitflip", "byteset", "truncate", "len-larger", "len-smaller", "len-4gib", "len-indefinite", "deep-nesting", "deep-nesting-definite", "many-nodes", "tag-zero", "long-tag",
	"inner-len-lie", "duplicate-inner", "empty-inner", "random-tail", "giant-claimed-image", "zero-fill", "repeat-entries", "unwrap-and-repeat", "inner-bad-oid", "facial-fields", "name-extra-component", "ec-params-truncate"}

var hostileFileTargets = []string{"cardaccess", "sod", "com", "dg1", "dg2", "dg7", "dg11", "dg12", "dg13", "dg14", "dg15", "dg16", "cardsecurity"}

type HostileFilesEngine struct{}

func (HostileFilesEngine) Name() string { return "hostile-files" }
func (HostileFilesEngine) Decode(raw json.RawMessage) (any, error) {
	var c HostileFileCase
	err := json.Unmarshal(raw, &c)
	return c, err
}

func (HostileFilesEngine) Gen(prop, tier string, seed uint64, yield func(c any) bool) {
	n := 2600
	if tier == "thorough" {
		n = 150000
	}
	rng := core.NewRng(core.SubSeed(seed, "hostile-files", tier))
	for i := 0; i < n; i++ {
		s := genEvidenceWorld(rng, i)
		s.DGs = []int{1, 2, 7, 11, 12, 13, 16}
		s.DG2Size, s.DG7Size, s.DG13Size = 60, 30, 20
		s.CSCA, s.CSCAScheme = world.KeySpec{Kind: "ec", CurveID: 12}, world.SchemeSpec{Kind: "ecdsa", Hash: "SHA256"}
		if i%3 == 0 {
			s.DS, s.DSScheme = world.KeySpec{Kind: "ec", CurveID: core.Pick(rng, chip.AllParamIDs), Explicit: true}, world.SchemeSpec{Kind: "ecdsa", Hash: "SHA256"}
		}
		// every mutation family gets the same share of runs, spread over the files it applies to
		mut := hostileFileMuts[i%len(hostileFileMuts)]
		targets := hostileFileTargets
		switch mut {
		case "facial-fields", "giant-claimed-image":
			targets = []string{"dg2"}
		case "name-extra-component":
			targets = []string{"dg11", "dg12", "dg16"}
		case "ec-params-truncate":
			targets = []string{"dg15", "dg14", "sod", "cardsecurity"}
		case "repeat-entries", "unwrap-and-repeat":
			targets = []string{"dg11", "dg12", "dg16", "com", "dg2", "dg7", "cardaccess", "dg14"}
		}
		f := targets[(i/len(hostileFileMuts))%len(targets)]
		if f == "cardsecurity" {
			s.PACE = []world.PaceSpec{{Suite: chip.AES128, CAM: true, ParamID: 13}}
			s.AA, s.CA = nil, nil
		}
		if f == "cardaccess" && len(s.PACE) == 0 {
			s.PACE = []world.PaceSpec{{Suite: chip.AES128, ParamID: 13}}
		}
		if f == "dg14" && s.CA == nil && len(s.PACE) == 0 {
			s.CA = &world.CASpec{CurveID: 13, Suites: []string{chip.AES128}}
		}
		if f == "dg15" && s.AA == nil {
			s.AA = &world.AASpec{Kind: "ec", CurveID: 12}
		}
		if mut == "ec-params-truncate" {
			// the file must hold a key with explicit domain parameters
			switch f {
			case "dg15":
				s.AA = &world.AASpec{Kind: "ec", CurveID: core.Pick(rng, chip.AllParamIDs), Explicit: true}
			case "dg14":
				s.CA = &world.CASpec{CurveID: core.Pick(rng, chip.AllParamIDs), Explicit: true, Suites: []string{chip.AES128}}
			default:
				s.DS, s.DSScheme = world.KeySpec{Kind: "ec", CurveID: core.Pick(rng, chip.AllParamIDs), Explicit: true}, world.SchemeSpec{Kind: "ecdsa", Hash: "SHA256"}
			}
		}
		if !yield(HostileFileCase{Spec: s, File: f, Mut: mut, A: rng.Intn(1 << 20), B: rng.Intn(256)}) {
			return
		}
	}
}

func (HostileFilesEngine) Shrink(ci any) []any { return nil }

func fileSlot(f string) (fid uint16, lds bool) {
	switch f {
	case "cardaccess":
		return chip.FidCardAccess, false
	case "cardsecurity":
		return chip.FidCardSecurity, false
	case "sod":
		return chip.FidSOD, true
	case "com":
		return chip.FidCOM, true
	}
	var n int
	fmt.Sscanf(f, "dg%d", &n)
	return chip.FidDG(n), true
}

func nest(tag byte, depth int, leaf []byte) []byte {
	out := leaf
	for i := 0; i < depth; i++ {
		out = chip.EncTLV(int(tag), out)
	}
	return out
}

// mutateFile applies a structure-aware lie to a genuine file.
func mutateFile(orig []byte, mut string, a, b int, rng *core.Rng) []byte {
	f := bytes.Clone(orig)
	if len(f) < 4 {
		return f
	}
	ts, err := chip.ParseTLVs(f)
	outerTag := int(f[0])
	var inner []byte
	if err == nil && len(ts) == 1 {
		outerTag, inner = ts[0].Tag, ts[0].Val
	} else {
		inner = f[2:]
	}
	switch mut {
	case "bitflip":
		f[a%len(f)] ^= byte(1 << uint(b%8))
	case "byteset":
		f[a%len(f)] = byte(b)
	case "truncate":
		f = f[:a%len(f)]
	case "len-larger":
		return append(append(tagBytes(outerTag), 0x82, byte((len(inner)+1+a%300)>>8), byte(len(inner)+1+a%300)), inner...)
	case "len-smaller":
		if len(inner) > 1 {
			return append(append(tagBytes(outerTag), chip.EncLen(len(inner)-1-a%min(len(inner)-1, 20))...), inner...)
		}
	case "len-4gib":
		return append(append(tagBytes(outerTag), 0x84, 0xFF, 0xFF, 0xFF, 0xFF), inner...)
	case "len-indefinite":
		return append(append(append(tagBytes(outerTag), 0x80), inner...), 0, 0)
	case "deep-nesting":
		return chip.EncTLV(outerTag, nest(0x30, 40+a%200, []byte{0x04, 0x00}))
	case "deep-nesting-definite":
		// nesting far beyond any limit with definite lengths only, optionally under a few indefinite-length levels;
		// as deep as a 64 KiB file allows
		depth := []int{60, 120, 500, 2000, 5000, 9000, 14000}[a%7]
		tag := []byte{0x30, 0x31, 0x61, 0x7C, 0xA0, 0x30, 0x70}[b%7]
		body := nest(tag, depth, []byte{0x04, 0x00})
		for i := 0; i < (b/7)%4*12; i++ {
			body = append(append([]byte{tag, 0x80}, body...), 0, 0)
		}
		if len(body) > 65000 {
			body = nest(tag, 14000, []byte{0x04, 0x00})
		}
		return chip.EncTLV(outerTag, body)
	case "repeat-entries", "unwrap-and-repeat":
		// every entry of the tag list (5C) and every other object repeated n times; in the second form the first
		// constructed child is unwrapped first (its objects promoted to the parent, a layout seen on real documents)
		kids, err := chip.ParseTLVs(inner)
		if err != nil || len(kids) == 0 {
			return f
		}
		if mut == "unwrap-and-repeat" {
			var flat []chip.TLV
			done := false
			for _, k := range kids {
				if !done && k.Tag&0x20 != 0 && k.Tag < 0x100 {
					if sub, err := chip.ParseTLVs(k.Val); err == nil {
						for _, x := range sub {
							if x.Tag != 0x02 {
								flat = append(flat, x)
							}
						}
						done = true
						continue
					}
				}
				flat = append(flat, k)
			}
			kids = flat
		}
		n := []int{40, 150, 400, 900}[a%4]
		var g []byte
		for _, k := range kids {
			if k.Tag == 0x5C {
				g = append(g, chip.EncTLV(0x5C, bytes.Repeat(k.Val, n))...)
			}
		}
		for _, k := range kids {
			if k.Tag == 0x5C {
				continue
			}
			raw := k.Raw
			if len(raw) > 24 {
				raw = chip.EncTLV(k.Tag, k.Val[:min(len(k.Val), 8)])
			}
			g = append(g, bytes.Repeat(raw, n)...)
		}
		if len(g) > 60000 {
			g = g[:60000]
		}
		return chip.EncTLV(outerTag, g)
	case "inner-bad-oid":
		// an OBJECT IDENTIFIER object with a dangling continuation octet, at the root, inside the first constructed
		// child, or replacing the first primitive child
		bad := [][]byte{{0x06, 0x01, 0x80}, {0x06, 0x02, 0x2A, 0x80}, {0x06, 0x00}, {0x06, 0x03, 0x80, 0x80, 0x80}}[b%4]
		kids, err := chip.ParseTLVs(inner)
		if err != nil || len(kids) == 0 {
			return chip.EncTLV(outerTag, append(bytes.Clone(bad), inner...))
		}
		var g []byte
		placed := false
		for _, k := range kids {
			switch a % 3 {
			case 1:
				if !placed && k.Tag&0x20 != 0 && k.Tag < 0x100 {
					g = append(g, chip.EncTLV(k.Tag, append(bytes.Clone(bad), k.Val...))...)
					placed = true
					continue
				}
			case 2:
				if !placed && (k.Tag&0x20 == 0 || k.Tag >= 0x100) && k.Tag != 0x5C && k.Tag != 0x02 {
					g = append(g, bad...)
					placed = true
					continue
				}
			}
			g = append(g, k.Raw...)
		}
		if !placed {
			g = append(bytes.Clone(bad), g...)
		}
		return chip.EncTLV(outerTag, g)
	case "facial-fields":
		// length and count fields of an ISO/IEC 19794-5 facial record set to small / inconsistent values (in place)
		i := bytes.Index(f, []byte{'F', 'A', 'C', 0})
		if i < 0 || i+34 > len(f) {
			return f
		}
		put32 := func(off int, v uint32) { f[off], f[off+1], f[off+2], f[off+3] = byte(v>>24), byte(v>>16), byte(v>>8), byte(v) }
		switch a % 4 {
		case 0:
			put32(i+14, uint32(b%96))
		case 1:
			f[i+18], f[i+19] = 0, byte(1+b%8)
			put32(i+14, uint32(32+b%70))
		case 2:
			put32(i+8, uint32(b%64))
		case 3:
			f[i+12], f[i+13] = byte(b%2), byte(200*(b%2))
		}
		return f
	case "name-extra-component":
		// one name field (the a-th object holding "<<", at the root or inside a template) gets a component too many ("A<<B<<C")
		var cands [][]int
		var walk func(raw []byte, path []int, depth int)
		walk = func(raw []byte, path []int, depth int) {
			kids, err := chip.ParseTLVs(raw)
			if err != nil {
				return
			}
			for i, k := range kids {
				first := k.Tag
				for first > 0xFF {
					first >>= 8
				}
				p := append(append([]int{}, path...), i)
				if first&0x20 != 0 && depth < 2 {
					walk(k.Val, p, depth+1)
				} else if bytes.Contains(k.Val, []byte("<<")) && k.Tag != 0x5F1F {
					cands = append(cands, p)
				}
			}
		}
		walk(inner, nil, 0)
		if len(cands) == 0 {
			return f
		}
		target := cands[a%len(cands)]
		var rebuild func(raw []byte, path []int) []byte
		rebuild = func(raw []byte, path []int) []byte {
			kids, _ := chip.ParseTLVs(raw)
			var g []byte
			for i, k := range kids {
				switch {
				case i != path[0]:
					g = append(g, k.Raw...)
				case len(path) == 1:
					g = append(g, chip.EncTLV(k.Tag, append(bytes.Clone(k.Val), []byte("<<ZED")...))...)
				default:
					g = append(g, chip.EncTLV(k.Tag, rebuild(k.Val, path[1:]))...)
				}
			}
			return g
		}
		return chip.EncTLV(outerTag, rebuild(inner, target))
	case "ec-params-truncate":
		// explicit EC domain parameters (X9.62 ECParameters) with their optional / trailing elements cut or emptied:
		// cofactor dropped, order and cofactor dropped, empty cofactor, oversized cofactor, base point dropped as well
		primeField := []byte{0x06, 0x07, 0x2A, 0x86, 0x48, 0xCE, 0x3D, 0x01, 0x01}
		var edit func(raw []byte, depth int) ([]byte, bool)
		edit = func(raw []byte, depth int) ([]byte, bool) {
			kids, err := chip.ParseTLVs(raw)
			if err != nil || depth > 12 {
				return raw, false
			}
			// is this the content of an ECParameters SEQUENCE? (version, fieldID{prime-field OID, p}, curve, base, order[, cofactor])
			if len(kids) >= 5 && kids[0].Tag == 0x02 && kids[1].Tag == 0x30 && bytes.HasPrefix(kids[1].Val, primeField) {
				keep := kids
				switch b % 5 {
				case 0:
					keep = kids[:5]
				case 1:
					keep = kids[:4]
				case 2:
					keep = append(append([]chip.TLV{}, kids[:5]...), chip.TLV{Raw: []byte{0x02, 0x00}})
				case 3:
					keep = append(append([]chip.TLV{}, kids[:5]...), chip.TLV{Raw: chip.EncTLV(0x02, bytes.Repeat([]byte{0x7F}, 40))})
				case 4:
					keep = kids[:3]
				}
				var g []byte
				for _, k := range keep {
					g = append(g, k.Raw...)
				}
				return g, true
			}
			var g []byte
			done := false
			for _, k := range kids {
				first := k.Tag
				for first > 0xFF {
					first >>= 8
				}
				if !done && (first&0x20 != 0 || k.Tag == 0x04 || k.Tag == 0x03) {
					val, pre := k.Val, []byte(nil)
					if k.Tag == 0x03 && len(val) > 0 {
						pre, val = val[:1], val[1:] // BIT STRING: unused-bits octet
					}
					if sub, ok := edit(val, depth+1); ok {
						g = append(g, chip.EncTLV(k.Tag, append(bytes.Clone(pre), sub...))...)
						done = true
						continue
					}
				}
				g = append(g, k.Raw...)
			}
			return g, done
		}
		if g, ok := edit(inner, 0); ok {
			return chip.EncTLV(outerTag, g)
		}
		return f
	case "many-nodes":
		return chip.EncTLV(outerTag, bytes.Repeat([]byte{0x04, 0x00}, 9000+a%6000))
	case "tag-zero":
		return chip.EncTLV(outerTag, append([]byte{0x00, 0x00}, inner...))
	case "long-tag":
		return chip.EncTLV(outerTag, append([]byte{0x7F, 0x81, 0x82, 0x03, 0x01, 0xAA}, inner...))
	case "inner-len-lie":
		// find an inner length octet and enlarge it
		for i := 1; i < len(inner)-1; i++ {
			if inner[i] > 2 && inner[i] < 0x7F && (a+i)%3 == 0 {
				g := bytes.Clone(inner)
				g[i] += byte(1 + b%0x40)
				return chip.EncTLV(outerTag, g)
			}
		}
	case "duplicate-inner":
		return chip.EncTLV(outerTag, append(bytes.Clone(inner), inner...))
	case "empty-inner":
		return chip.EncTLV(outerTag, nil)
	case "random-tail":
		return append(f, rng.Bytes(1+a%64)...)
	case "giant-claimed-image":
		// a length field inside the content claims far more than is there (e.g. ISO 19794 record / image length)
		g := bytes.Clone(inner)
		for i := 0; i+4 <= len(g); i++ {
			if g[i] == 0 && g[i+1] == 0 && (a+i)%5 == 0 {
				g[i], g[i+1], g[i+2], g[i+3] = 0x7F, 0xFF, 0xFF, 0xFF
				break
			}
		}
		return chip.EncTLV(outerTag, g)
	case "zero-fill":
		for i := 2 + a%max(1, len(f)-2); i < len(f); i++ {
			f[i] = 0
		}
	}
	return f
}

func tagBytes(tag int) []byte {
	if tag > 0xFF {
		return []byte{byte(tag >> 8), byte(tag)}
	}
	return []byte{byte(tag)}
}

// directConstructor re-invokes the inner public entry point with the exact bytes the chip served.
func directConstructor(file string, data []byte) (err error, pan any) {
	defer func() { pan = recover() }()
	switch file {
	case "cardaccess":
		_, err = document.NewCardAccess(data)
	case "cardsecurity":
		_, err = document.NewCardSecurity(data)
	case "sod":
		_, err = document.NewSOD(data)
	case "com":
		_, err = document.NewCOM(data)
	default:
		var n int
		fmt.Sscanf(file, "dg%d", &n)
		var d document.Document
		err = d.NewDG(n, data)
	}
	return
}

func (HostileFilesEngine) Run(prop string, ci any) *core.Outcome {
	c := ci.(HostileFileCase)
	out := &core.Outcome{}
	var served []byte
	applied := false
	var m0, m1 runtime.MemStats
	r := runRead(c.Spec, nil, out, func(r *ReadRun) {
		fid, inLDS := fileSlot(c.File)
		files := r.W.MF
		if inLDS {
			files = r.W.LDS
		}
		orig, ok := files[fid]
		if !ok {
			return
		}
		served = mutateFile(orig, c.Mut, c.A, c.B, core.NewRng(core.SubSeed(c.Spec.Seed, "filemut")))
		if bytes.Equal(served, orig) {
			return
		}
		files[fid] = served
		applied = true
		runtime.ReadMemStats(&m0)
	})
	runtime.ReadMemStats(&m1)
	out.Exchanges = r.Link.N
	out.Fingerprint = r.Link.Log.Fingerprint()
	if !applied {
		out.Discarded = "mutation-not-applicable"
		return out
	}
	out.Fault("file_" + c.Mut)
	sig := c.File + "/" + c.Mut
	if r.Panic != nil {
		out.Violate("C12", "panic-escaped-read", sig, "panic escaped ReadDocument while reading a byzantine %s (%s): %v", c.File, c.Mut, r.Panic)
	}
	// a panic contained by ReadDocument's recover is visible as a runtime.Error: re-invoke the constructor directly
	var rte runtime.Error
	if r.Err != nil && errors.As(r.Err, &rte) {
		out.Probe("runtime_error_contained_by_reader")
		if _, pan := directConstructor(c.File, served); pan != nil {
			out.Violate("C12", "panic-in-constructor", sig, "constructor for %s panics on the %d bytes the chip served (%s): %v", c.File, len(served), c.Mut, pan)
		} else {
			out.Violate("C12", "panic-in-read-path", sig, "ReadDocument contained a runtime panic while processing a byzantine %s (%s): %v", c.File, c.Mut, r.Err)
		}
	}
	if r.Link.Overrun {
		out.Violate("C12", "no-termination", sig, "more than %d exchanges while reading a byzantine %s", r.Link.MaxExchanges, c.File)
	}
	if r.Slog > 2000000 {
		out.Violate("C12", "step-bound", sig, "%d logging steps while reading a byzantine %s", r.Slog, c.File)
	}
	total := 0
	for _, f := range r.W.LDS {
		total += len(f)
	}
	for _, f := range r.W.MF {
		total += len(f)
	}
	if d := m1.TotalAlloc - m0.TotalAlloc; d > 256<<20+uint64(total)*8192 {
		out.Violate("C12", "alloc-out-of-proportion", sig, "reading a chip with %d bytes of files (byzantine %s, %s) allocated %d bytes", total, c.File, c.Mut, d)
	}
	// the constructor alone on the served bytes: allocation proportional to the input (a whole read has a large constant part)
	{
		var a0, a1 runtime.MemStats
		runtime.ReadMemStats(&a0)
		term.ArmStepBound(5000000)
		_, pan := directConstructor(c.File, served)
		term.DisarmStepBound()
		runtime.ReadMemStats(&a1)
		if pan == term.StepBoundExceeded {
			out.Violate("C12", "no-termination", "constructor/"+sig, "constructor for %s does not return within 5 000 000 logging steps on a %d-byte input (%s)", c.File, len(served), c.Mut)
		} else if pan != nil {
			out.Violate("C12", "panic-in-constructor", sig, "constructor for %s panics on the %d bytes the chip served (%s): %v", c.File, len(served), c.Mut, pan)
		}
		d := a1.TotalAlloc - a0.TotalAlloc
		if d > constructorAllocBudget(len(served)) {
			out.Violate("C12", "alloc-out-of-proportion", "constructor/"+sig, "constructor for %s allocated %d bytes for a %d-byte input (%s): %d bytes per input byte", c.File, d, len(served), c.Mut, d/uint64(max(1, len(served))))
		}
		if len(served) > 0 {
			ratio := d / uint64(len(served))
			switch {
			case ratio >= 400:
				out.Probe("constructor_alloc_ge_400_per_byte")
			case ratio >= 100:
				out.Probe("constructor_alloc_ge_100_per_byte")
			}
		}
	}
	// whatever came back must also survive export -> store -> offline verification without a crash
	if r.Doc != nil {
		if blob, err := r.Doc.ToCbor(); err == nil {
			verifyBlob(out, r.W, blob, nil, "after byzantine "+sig)
		}
		trustInvariant(out, r.Doc, "hostile-files")
		stepsVsChip(out, "C11", r)
	}
	oc := "error"
	if r.Err == nil {
		oc = "read-ok"
	}
	out.Key = fmt.Sprintf("%s|%s|%s", c.File, c.Mut, oc)
	return out
}

// constructorAllocBudget: stated linear budget for one file constructor call: 1 MiB + 1 KiB per input byte.
func constructorAllocBudget(n int) uint64 { return 1<<20 + uint64(n)*1024 }
