package engines

import (
	"bytes"
	"encoding/json"
	"fmt"
	"runtime"

	"github.com/gmrtd/gmrtd/iso7816"

	"verif/sim/chip"
	"verif/sim/core"
	"verif/sim/term"
)

// sm-duel: a real iso7816.SecureMessaging (inside a real NfcSession, or used directly) on the
// terminal side against the reference chip's own secure messaging on the other side, over
// command/response histories. Serves C03 (active adversary on protected responses) and C10
// (commands well-formed, counters in lockstep).

// scriptCard is a card that authenticates commands with the reference SM and answers with
// scripted plaintext responses (data, status) protected by the reference SM.
type scriptCard struct {
	sm     *chip.SM
	noExt  bool
	rng    *core.Rng
	script func(k int, plain chip.CAPDU) ([]byte, uint16)
	// adversary replaces the genuine response of exchange k (nil = deliver genuine)
	adversary func(k int, genuine []byte) []byte
	// intercept: the adversary answers exchange k itself; the card never sees the command
	intercept   func(k int) bool
	intercepted []bool
	n           int
	outers      []chip.CAPDU
	rawLens     []int
	outerErrs   []string
	plains      []*chip.CAPDU
	smErrs      []string
	rejected    []bool
	respData    [][]byte
	respSW      []uint16
	genuine     [][]byte
	delivered   [][]byte
	log         term.EventLog
}

func (c *scriptCard) Transceive(cla, ins, p1, p2 int, data []byte, le int, raw []byte) []byte {
	k := c.n
	c.n++
	outer, err := chip.ParseCAPDU(raw)
	c.outers = append(c.outers, outer)
	c.rawLens = append(c.rawLens, len(raw))
	var plain *chip.CAPDU
	var resp []byte
	var rd []byte
	var rsw uint16
	errS, smErr := "", ""
	rej := false
	icpt := c.intercept != nil && c.intercept(k)
	c.intercepted = append(c.intercepted, icpt)
	switch {
	case icpt:
		resp = nil
	case err != nil:
		errS = err.Error()
		rej = true
		resp = []byte{0x67, 0x00}
	case outer.Extended && c.noExt:
		rej = true
		resp = []byte{0x67, 0x00}
	case outer.CLA&0x0C != 0x0C:
		smErr = "unprotected command"
		resp = []byte{0x69, 0x82}
	default:
		p, e := c.sm.Unwrap(outer)
		if e != nil {
			smErr = e.Error()
			resp = []byte{0x69, 0x88}
		} else {
			plain = &p
			rd, rsw = c.script(k, p)
			resp = c.sm.Wrap(p.INS, rd, rsw)
		}
	}
	c.outerErrs = append(c.outerErrs, errS)
	c.plains = append(c.plains, plain)
	c.smErrs = append(c.smErrs, smErr)
	c.rejected = append(c.rejected, rej)
	c.respData = append(c.respData, rd)
	c.respSW = append(c.respSW, rsw)
	c.genuine = append(c.genuine, bytes.Clone(resp))
	out := resp
	if c.adversary != nil {
		out = c.adversary(k, resp)
	}
	c.delivered = append(c.delivered, bytes.Clone(out))
	c.log.Add("x", raw, resp, out)
	return out
}

type sscMode struct {
	Mode string `json:"mode"` // zero | random | nearwrap | carry
	K    int    `json:"k,omitempty"`
}

func initSSC(m sscMode, n int, rng *core.Rng) []byte {
	s := make([]byte, n)
	switch m.Mode {
	case "random":
		copy(s, rng.Bytes(n))
	case "carry":
		// random high part over a run of FF octets: the increments of the run carry across a byte, 32-bit or 64-bit
		// boundary INSIDE the counter (same draws as "random", so the rest of the case's stream is unchanged)
		copy(s, rng.Bytes(n))
		j := []int{1, 2, 3, 4, 7, 8, 8, 8}[int(s[0])%8]
		if j >= n {
			j = n - 1
		}
		for i := n - j; i < n; i++ {
			s[i] = 0xFF
		}
		s[n-1] -= s[1] % 4
		if s[n-j-1] == 0xFF {
			s[n-j-1] = 0x7F
		}
	case "nearwrap":
		for i := range s {
			s[i] = 0xFF
		}
		// 2^n - 1 - K
		k := m.K
		for i := n - 1; i >= 0 && k > 0; i-- {
			d := k & 0xFF
			s[i] = byte(0xFF - d)
			k >>= 8
		}
	}
	return s
}

func newDuel(suite string, mode sscMode, rng *core.Rng) (*iso7816.SecureMessaging, *chip.SM, error) {
	kenc, kmac := rng.Bytes(keyLen(suite)), rng.Bytes(keyLen(suite))
	if suite == chip.TDES {
		kenc, kmac = chip.KDF(kenc, 1, chip.TDES), chip.KDF(kmac, 2, chip.TDES)
	}
	sm, err := iso7816.NewSecureMessaging(smAlg(suite), kenc, kmac)
	if err != nil {
		return nil, nil, err
	}
	cs := chip.NewSM(suite, kenc, kmac)
	ssc := initSSC(mode, len(cs.SSC), rng)
	copy(cs.SSC, ssc)
	if err := sm.SetSSC(ssc); err != nil {
		return nil, nil, err
	}
	return sm, cs, nil
}

var allSuites = []string{chip.TDES, chip.AES128, chip.AES192, chip.AES256}

func genSSCMode(rng *core.Rng) sscMode {
	switch rng.Intn(4) {
	case 0:
		return sscMode{Mode: "zero"}
	case 1:
		return sscMode{Mode: "nearwrap", K: rng.Intn(8)}
	case 2:
		return sscMode{Mode: "carry"}
	}
	return sscMode{Mode: "random"}
}

var lenBand = []int{0, 1, 2, 6, 7, 8, 9, 14, 15, 16, 17, 23, 24, 31, 32, 33, 100, 223, 231, 239, 240, 247, 248, 253, 254, 255, 256, 257, 300, 1000}

var swSet = []uint16{0x9000, 0x9000, 0x9000, 0x6282, 0x6283, 0x6300, 0x6700, 0x6982, 0x6985, 0x6986, 0x6987, 0x6988, 0x6A80, 0x6A82, 0x6A86, 0x6A88, 0x6B00, 0x6D00, 0x6E00, 0x6F00, 0x6100, 0x63C2, 0x0000, 0xFFFF, 0x6C00, 0x6C10, 0x6CFF, 0x61FF, 0x6281, 0x9001}

// ------------------------------------------------------------------ C03: responses

type RespCase struct {
	Seed    uint64  `json:"seed"`
	Suite   string  `json:"suite"`
	SSC     sscMode `json:"ssc"`
	Hist    int     `json:"hist"`     // genuine exchanges before the attacked one
	UseNfc  bool    `json:"use_nfc"`  // through NfcSession.DoAPDU (else SecureMessaging.Encode/Decode)
	DataLen int     `json:"data_len"` // plaintext response data length of the attacked exchange
	SW      uint16  `json:"sw"`
	OddINS  bool    `json:"odd_ins,omitempty"`
	Attack  string  `json:"attack"`
	A       int     `json:"a,omitempty"`
	B       int     `json:"b,omitempty"`
}

type SMRespEngine struct{}

func (SMRespEngine) Name() string { return "smduel-resp" }
func (SMRespEngine) Decode(raw json.RawMessage) (any, error) {
	var c RespCase
	err := json.Unmarshal(raw, &c)
	return c, err
}

var respAttacks = []string{"naked-then-stale", "extra-do", "no-do99", "mac-short", "forged-short-mac", "naked-replay", "status-both", "splice-do87", "mac-tail", "bitflip", "bytesub", "truncate", "do_drop", "do_dup", "do_reorder", "do_nonminimal_len", "sw_mismatch",
	"replay", "future", "cross_session", "plaintext", "bare_status", "random", "append", "wrong_ssc_rewrap", "strip_mac", "empty"}

func (SMRespEngine) Gen(prop, tier string, seed uint64, yield func(c any) bool) {
	rng := core.NewRng(core.SubSeed(seed, "smduel-resp", tier))
	// part 1: exhaustive single-bit flips and truncations of short responses, per suite
	reps := 1
	if tier == "thorough" {
		reps = 6
	}
	for r := 0; r < reps; r++ {
		for _, suite := range allSuites {
			for _, dl := range []int{0, 5, 16} {
				base := RespCase{Seed: rng.U64(), Suite: suite, SSC: genSSCMode(rng), Hist: rng.Intn(4), UseNfc: rng.Bool(), DataLen: dl, SW: core.Pick(rng, swSet)}
				// response length bound: DO87 (3+1+pad) + DO99 4 + DO8E 10 + SW 2
				maxLen := 64
				for bit := 0; bit < maxLen*8; bit++ {
					c := base
					c.Attack, c.A = "bitflip", bit
					if !yield(c) {
						return
					}
				}
				for n := 0; n < maxLen; n++ {
					c := base
					c.Attack, c.A = "truncate", n
					if !yield(c) {
						return
					}
				}
			}
		}
	}
	// part 2: seeded adversarial deliveries over histories
	n := 120000
	if prop != "C03" {
		n = 40000
	}
	if tier == "thorough" {
		n = 6000000
	}
	for i := 0; i < n; i++ {
		c := RespCase{Seed: rng.U64(), Suite: allSuites[i%4], SSC: genSSCMode(rng), Hist: rng.Intn(12), UseNfc: rng.Bool(),
			SW: core.Pick(rng, swSet), OddINS: rng.Chance(1, 6), Attack: respAttacks[(i/4)%len(respAttacks)], A: rng.Intn(1 << 16), B: rng.Intn(256)}
		if rng.Chance(1, 30) {
			c.Hist = rng.Range(12, 40)
		}
		if rng.Chance(2, 3) {
			c.DataLen = core.Pick(rng, lenBand)
		} else {
			c.DataLen = rng.Intn(600)
		}
		if !yield(c) {
			return
		}
	}
}

func (SMRespEngine) Shrink(ci any) []any {
	x := ci.(RespCase)
	var out []any
	add := func(m func(*RespCase)) {
		y := x
		m(&y)
		if y != x {
			out = append(out, y)
		}
	}
	add(func(y *RespCase) { y.Hist = 0 })
	add(func(y *RespCase) { y.Hist /= 2 })
	add(func(y *RespCase) { y.UseNfc = false })
	add(func(y *RespCase) { y.OddINS = false })
	add(func(y *RespCase) { y.SSC = sscMode{Mode: "zero"} })
	add(func(y *RespCase) { y.DataLen = 0 })
	add(func(y *RespCase) { y.DataLen /= 2 })
	add(func(y *RespCase) { y.SW = 0x9000 })
	add(func(y *RespCase) { y.Suite = chip.TDES })
	add(func(y *RespCase) { y.Seed = 1 })
	return out
}

func (SMRespEngine) Run(prop string, ci any) *core.Outcome {
	c := ci.(RespCase)
	out := &core.Outcome{}
	term.InstallSeams()
	rng := core.NewRng(c.Seed)
	sm, cs, err := newDuel(c.Suite, c.SSC, rng)
	if err != nil {
		out.Discarded = "harness: " + err.Error()
		return out
	}
	// a second, unrelated session for cross-session material (same SSC, other keys)
	_, other, _ := newDuel(c.Suite, c.SSC, core.NewRng(c.Seed^0xABCDEF))
	copy(other.SSC, cs.SSC)
	type want struct {
		data []byte
		sw   uint16
	}
	// naked-replay is a multi-step attack: 1-3 bare status words in a row, then a replay of the last genuine response
	naked := 0
	if c.Attack == "naked-replay" {
		naked = 1 + c.A%3
		if c.Hist == 0 {
			c.Hist = 1
		}
	}
	// naked-then-stale: the genuine response of exchange Hist is withheld behind a bare status word and delivered as the
	// answer to the next command (which the adversary keeps from the chip)
	stale := c.Attack == "naked-then-stale"
	if stale {
		naked = 1
	}
	last := c.Hist + naked // index of the exchange whose delivery is judged
	script := make([]want, last+1)
	for i := range script {
		script[i] = want{rng.Bytes(core.Pick(rng, lenBand)), core.Pick(rng, swSet)}
	}
	script[c.Hist] = want{rng.Bytes(c.DataLen), c.SW}
	card := &scriptCard{sm: cs, rng: rng}
	card.script = func(k int, p chip.CAPDU) ([]byte, uint16) { return script[k].data, script[k].sw }
	attackRng := core.NewRng(core.SubSeed(c.Seed, "attack"))
	fired := false
	if naked > 0 {
		card.intercept = func(k int) bool { return k >= c.Hist && !(stale && k == c.Hist) }
	}
	card.adversary = func(k int, genuine []byte) []byte {
		if naked > 0 {
			switch {
			case k >= c.Hist && k < last:
				sw := swSet[(c.B+k)%len(swSet)]
				return []byte{byte(sw >> 8), byte(sw)}
			case k == last:
				fired = true
				if stale {
					return bytes.Clone(card.genuine[c.Hist])
				}
				return bytes.Clone(card.genuine[c.Hist-1])
			}
			return genuine
		}
		if k != c.Hist {
			return genuine
		}
		g := bytes.Clone(genuine)
		var forged []byte
		switch c.Attack {
		case "bitflip":
			if len(g) == 0 || c.A >= len(g)*8 {
				return genuine
			}
			g[c.A/8] ^= 1 << uint(c.A%8)
			forged = g
		case "bytesub":
			if len(g) == 0 {
				return genuine
			}
			pos := c.A % len(g)
			v := byte(c.B)
			if v == g[pos] {
				v ^= 0x80
			}
			g[pos] = v
			forged = g
		case "truncate":
			if c.A >= len(g) {
				return genuine
			}
			forged = g[:c.A]
		case "do_drop", "do_dup", "do_reorder", "do_nonminimal_len", "sw_mismatch":
			r, ok := term.EditSM(g, c.Attack, c.A)
			if !ok {
				return genuine
			}
			forged = r
		case "replay":
			if k == 0 {
				return genuine
			}
			forged = bytes.Clone(card.genuine[c.A%k])
		case "future":
			// what the chip would send for the *next* exchange (counter two steps ahead)
			cl := cs.Clone()
			cl.Inc()
			forged = cl.Wrap(0xB0, script[k].data, script[k].sw)
		case "cross_session":
			o := other.Clone()
			copy(o.SSC, cs.SSC)
			// cs.SSC already counts this response; rewind one so that Wrap lands on the same counter
			dec(o.SSC)
			forged = o.Wrap(0xB0, script[k].data, script[k].sw)
		case "wrong_ssc_rewrap":
			// the right keys and the right content, but authenticated under another counter value
			o := cs.Clone()
			if (c.A/3)%2 == 1 && (c.SSC.Mode == "carry" || c.SSC.Mode == "nearwrap") {
				// the counter a terminal arrives at when a carry is lost at a 1/2/4/8-byte boundary inside the counter:
				// low part of the right value, high part zeroed or left as it was two increments ago
				right := bytes.Clone(cs.SSC)
				prev := bytes.Clone(cs.SSC)
				dec(prev)
				dec(prev)
				j := []int{1, 2, 4, 8}[(c.A/6)%4]
				if j >= len(right) {
					j = len(right) / 2
				}
				x := bytes.Clone(right)
				for i := 0; i < len(x)-j; i++ {
					if (c.A/24)%2 == 0 {
						x[i] = 0
					} else {
						x[i] = prev[i]
					}
				}
				if bytes.Equal(x, right) {
					return genuine
				}
				copy(o.SSC, x)
				dec(o.SSC)
				forged = o.Wrap(0xB0, script[k].data, script[k].sw)
				break
			}
			d := 1 + c.A%3
			for i := 0; i < d+1; i++ {
				dec(o.SSC)
			}
			forged = o.Wrap(0xB0, script[k].data, script[k].sw)
		case "no-do99":
			// right keys, right counter, valid MAC - but the status was left out of the MAC input (no DO'99'), so the
			// trailer status is not authenticated; delivered with the genuine or with another trailer status
			o := cs.Clone()
			dec(o.SSC)
			o.OmitDO99 = true
			forged = o.Wrap(0xB0, script[k].data, script[k].sw)
			if c.A%2 == 1 {
				ns := swSet[c.B%len(swSet)]
				if ns == script[k].sw {
					ns ^= 0x0300
				}
				forged[len(forged)-2], forged[len(forged)-1] = byte(ns>>8), byte(ns)
			}
		case "plaintext":
			forged = append(bytes.Clone(script[k].data), byte(script[k].sw>>8), byte(script[k].sw))
			if c.B%2 == 0 {
				forged = append(attackRng.Bytes(1+c.A%40), 0x90, 0x00)
			}
		case "bare_status":
			s := swSet[c.A%len(swSet)]
			forged = []byte{byte(s >> 8), byte(s)}
		case "random":
			forged = attackRng.Bytes(2 + c.A%80)
		case "append":
			forged = append(append(bytes.Clone(g[:len(g)-2]), attackRng.Bytes(1+c.A%20)...), g[len(g)-2:]...)
		case "strip_mac":
			ts, err := chip.ParseTLVs(g[:len(g)-2])
			if err != nil {
				return genuine
			}
			for _, t := range ts {
				if t.Tag != 0x8E {
					forged = append(forged, t.Raw...)
				}
			}
			forged = append(forged, g[len(g)-2:]...)
		case "empty":
			forged = nil
		case "status-both":
			// protected status and outer status changed consistently, MAC left as is
			ts, err := chip.ParseTLVs(g[:len(g)-2])
			if err != nil {
				return genuine
			}
			ns := swSet[c.A%len(swSet)]
			if ns == script[k].sw {
				ns ^= 0x0100
			}
			for _, t := range ts {
				if t.Tag == 0x99 {
					forged = append(forged, chip.EncTLV(0x99, []byte{byte(ns >> 8), byte(ns)})...)
				} else {
					forged = append(forged, t.Raw...)
				}
			}
			forged = append(forged, byte(ns>>8), byte(ns))
		case "splice-do87":
			// data object of an earlier genuine response spliced into this one
			var donor []byte
			for j := k - 1; j >= 0 && donor == nil; j-- {
				if ts, err := chip.ParseTLVs(card.genuine[j][:len(card.genuine[j])-2]); err == nil {
					for _, t := range ts {
						if t.Tag == 0x87 || t.Tag == 0x85 {
							donor = t.Raw
						}
					}
				}
			}
			ts, err := chip.ParseTLVs(g[:len(g)-2])
			if err != nil || donor == nil {
				return genuine
			}
			had := false
			for _, t := range ts {
				if t.Tag == 0x87 || t.Tag == 0x85 {
					forged = append(forged, donor...)
					had = true
				} else {
					forged = append(forged, t.Raw...)
				}
			}
			if !had {
				forged = append(bytes.Clone(donor), forged...)
			}
			forged = append(forged, g[len(g)-2:]...)
			if bytes.Equal(forged, g) {
				return genuine
			}
		case "mac-short":
			// genuine content, MAC object cut to 0..7 bytes
			ts, err := chip.ParseTLVs(g[:len(g)-2])
			if err != nil {
				return genuine
			}
			for _, t := range ts {
				if t.Tag == 0x8E {
					forged = append(forged, chip.EncTLV(0x8E, t.Val[:c.A%8])...)
				} else {
					forged = append(forged, t.Raw...)
				}
			}
			forged = append(forged, g[len(g)-2:]...)
		case "forged-short-mac":
			// attacker-chosen status (and optionally a data object from an earlier response) with an empty / short MAC object
			ns := swSet[c.A%len(swSet)]
			if ns == script[k].sw {
				ns ^= 0x0300
			}
			if c.B%2 == 0 && k > 0 {
				if ts, err := chip.ParseTLVs(card.genuine[k-1][:len(card.genuine[k-1])-2]); err == nil {
					for _, t := range ts {
						if t.Tag == 0x87 {
							forged = append(forged, t.Raw...)
						}
					}
				}
			}
			forged = append(forged, chip.EncTLV(0x99, []byte{byte(ns >> 8), byte(ns)})...)
			forged = append(forged, chip.EncTLV(0x8E, attackRng.Bytes(c.B%4))...)
			forged = append(forged, byte(ns>>8), byte(ns))
		case "extra-do":
			// a well-formed additional data object with a tag that is already present (or another SM tag), carrying
			// different content, placed after / before / between the genuine objects
			ts, err := chip.ParseTLVs(g[:len(g)-2])
			if err != nil {
				return genuine
			}
			var donor []byte
			for j := k - 1; j >= 0 && donor == nil; j-- {
				if ds, err := chip.ParseTLVs(card.genuine[j][:len(card.genuine[j])-2]); err == nil {
					for _, t := range ds {
						if t.Tag == 0x87 || t.Tag == 0x85 {
							donor = t.Raw
						}
					}
				}
			}
			ns := swSet[c.B%len(swSet)]
			if ns == script[k].sw {
				ns ^= 0x0300
			}
			outer := g[len(g)-2:]
			var extra []byte
			var donorTLV chip.TLV
			if donor != nil {
				if dt, err := chip.ParseTLVs(donor); err == nil && len(dt) == 1 {
					donorTLV = dt[0]
				}
			}
			switch c.A % 9 {
			case 7, 8:
				// the cryptogram of an earlier genuine response under the OTHER cryptogram tag (87 <-> 85), with and
				// without the padding-content indicator: decrypts and unpads, but is not what the chip authenticated now
				if donor == nil || len(donorTLV.Val) < 2 {
					return genuine
				}
				other := 0x85
				if donorTLV.Tag == 0x85 {
					other = 0x87
				}
				v := donorTLV.Val
				if c.A%9 == 8 && v[0] == 0x01 && (len(v)-1)%8 == 0 {
					v = v[1:]
				}
				extra = chip.EncTLV(other, v)
			case 0:
				if donor == nil {
					return genuine
				}
				extra = donor
			case 1:
				blk := 16
				if c.Suite == chip.TDES {
					blk = 8
				}
				extra = chip.EncTLV(0x87, append([]byte{0x01}, attackRng.Bytes(blk*(1+c.B%3))...))
			case 2:
				extra = chip.EncTLV(0x99, []byte{byte(ns >> 8), byte(ns)})
				outer = []byte{byte(ns >> 8), byte(ns)}
			case 3:
				extra = chip.EncTLV(0x99, []byte{byte(ns >> 8), byte(ns)})
			case 4:
				extra = chip.EncTLV(0x8E, attackRng.Bytes(8))
			case 5:
				extra = chip.EncTLV(0x85, attackRng.Bytes(16))
			case 6:
				extra = chip.EncTLV(0x81, attackRng.Bytes(1+c.B%20))
			}
			pos := (c.A / 9) % 3 // 0 after everything, 1 in front, 2 just before the MAC object
			for i, t := range ts {
				if pos == 1 && i == 0 {
					forged = append(forged, extra...)
				}
				if pos == 2 && t.Tag == 0x8E {
					forged = append(forged, extra...)
				}
				forged = append(forged, t.Raw...)
			}
			if pos == 0 {
				forged = append(forged, extra...)
			}
			forged = append(forged, outer...)
		case "mac-tail":
			// only the last bytes of the MAC object altered
			if len(g) < 6 {
				return genuine
			}
			g[len(g)-3-(c.A%4)] ^= byte(1 << uint(c.B%8))
			forged = g
		default:
			return genuine
		}
		fired = true
		return forged
	}
	nfc := iso7816.NewNfcSession(card)
	nfc.SetSecureMessaging(sm)
	doOne := func(k int) (*iso7816.RApdu, error, any) {
		ins := byte(0xB0)
		if c.OddINS && k == last {
			ins = 0xB1
		}
		cmd := iso7816.NewCApdu(0x00, ins, byte(k>>8), byte(k), rng.Bytes(core.Pick(rng, []int{0, 0, 4, 8, 17})), core.Pick(rng, []int{0, 1, 256}))
		var r *iso7816.RApdu
		var e error
		var pan any
		func() {
			defer func() { pan = recover() }()
			if c.UseNfc {
				r, e = nfc.DoAPDU(cmd, "duel")
			} else {
				var enc *iso7816.CApdu
				enc, e = sm.Encode(cmd)
				if e != nil {
					return
				}
				raw := enc.Encode()
				resp := card.Transceive(0, 0, 0, 0, nil, 0, raw)
				r, e = sm.Decode(resp)
			}
		}()
		return r, e, pan
	}
	for k := 0; k <= last; k++ {
		var m0, m1 runtime.MemStats
		if k == last {
			runtime.ReadMemStats(&m0)
		}
		r, e, pan := doOne(k)
		if k == last {
			runtime.ReadMemStats(&m1)
			if d := m1.TotalAlloc - m0.TotalAlloc; d > allocBudget(len(card.delivered[len(card.delivered)-1])) {
				out.Violate("C12", "alloc-out-of-proportion", "sm-response/tlv.Decode", "decoding a %d-byte response allocated %d bytes (response %x)", len(card.delivered[len(card.delivered)-1]), d, card.delivered[len(card.delivered)-1])
			}
		}
		sig := fmt.Sprintf("%s/%s", c.Attack, c.Suite)
		if stale {
			sig = "naked-then-stale"
		}
		if pan != nil {
			out.Violate("C03", "panic", sig, "panic at exchange %d: %v", k, pan)
			out.Violate("C12", "panic-sm-decode", "sm.Decode", "panic: %v", pan)
			break
		}
		if card.plains[k] == nil && !card.intercepted[k] {
			out.Violate("C10", "command-rejected-by-chip", c.Suite, "exchange %d: chip could not authenticate the command: %s %s", k, card.outerErrs[k], card.smErrs[k])
			break
		}
		if k < c.Hist {
			if e != nil || r == nil || !bytes.Equal(r.Data, script[k].data) || r.Status != script[k].sw {
				out.Violate("C10", "genuine-response-rejected", c.Suite, "history exchange %d genuine response not delivered intact: err=%v", k, e)
				break
			}
			continue
		}
		if k < last {
			// bare status words inside a session must be refused
			if e == nil && r != nil {
				out.Violate("C03", "accepted-forged", sig, "bare status word accepted inside a session at exchange %d as data=%x sw=%04x", k, r.Data, r.Status)
				break
			}
			continue
		}
		// the attacked exchange
		if !fired {
			out.Discarded = "attack-not-applicable"
			if e != nil {
				out.Violate("C10", "genuine-response-rejected", c.Suite, "exchange %d genuine response rejected: %v", k, e)
			}
			break
		}
		out.Fault("adv_" + c.Attack)
		same := bytes.Equal(card.delivered[k], card.genuine[k])
		if e == nil && r != nil {
			if bytes.Equal(r.Data, script[k].data) && r.Status == script[k].sw {
				if same {
					out.Probe("attack_was_identity")
				} else if !sameMAC(card.delivered[k], card.genuine[k]) {
					// same plaintext, but the MAC data object that was delivered is not the session MAC of this
					// exchange: the response was not authenticated and must not have reached the caller
					oracle := "accepted-unauthenticated"
					if stale {
						// the withheld response happens to carry the same (empty) data and status the retried command was
						// scripted to get: still the response of another exchange - same class as the differing case
						oracle = "accepted-forged"
					}
					out.Violate("C03", oracle, sig, "attack %s(%d,%d) suite %s: delivered %x carries a MAC object different from the genuine one (%x) and was accepted", c.Attack, c.A, c.B, c.Suite, card.delivered[k], card.genuine[k])
				} else {
					out.Probe("benign_malleable_accepts")
				}
			} else {
				out.Violate("C03", "accepted-forged", sig,
					"attack %s(%d,%d) suite %s: delivered %x (genuine %x) accepted as data=%x sw=%04x; chip authenticated data=%x sw=%04x",
					c.Attack, c.A, c.B, c.Suite, card.delivered[k], card.genuine[k], r.Data, r.Status, script[k].data, script[k].sw)
			}
		} else {
			out.Probe("rejected")
		}
	}
	out.Exchanges = card.n
	out.Fingerprint = card.log.Fingerprint()
	dl := "0"
	switch {
	case c.DataLen == 0:
	case c.DataLen < 16:
		dl = "<16"
	case c.DataLen < 256:
		dl = "<256"
	default:
		dl = ">=256"
	}
	res := "rej"
	if out.Probes["benign_malleable_accepts"] > 0 {
		res = "benign"
	}
	if out.Discarded == "" {
		a := c.A
		if c.Attack != "bitflip" && c.Attack != "truncate" {
			a = 0
		}
		out.Key = fmt.Sprintf("%s|%s|%s|%d|sw%04x|ssc=%s|nfc=%v|%s", c.Attack, c.Suite, dl, a, c.SW, c.SSC.Mode, c.UseNfc, res)
	}
	return out
}

func dec(s []byte) {
	for i := len(s) - 1; i >= 0; i-- {
		s[i]--
		if s[i] != 0xFF {
			return
		}
	}
}

// ------------------------------------------------------------------ C10: commands

type CmdCase struct {
	Seed    uint64  `json:"seed"`
	Suite   string  `json:"suite"`
	SSC     sscMode `json:"ssc"`
	N       int     `json:"n"`
	NoExt   bool    `json:"no_ext,omitempty"`   // card rejects extended-length APDUs at transport level
	BigData bool    `json:"big_data,omitempty"` // include a command near the largest protectable size
	Profile int     `json:"profile"`
}

type SMCmdEngine struct{}

func (SMCmdEngine) Name() string { return "smduel-cmd" }
func (SMCmdEngine) Decode(raw json.RawMessage) (any, error) {
	var c CmdCase
	err := json.Unmarshal(raw, &c)
	return c, err
}

func (SMCmdEngine) Gen(prop, tier string, seed uint64, yield func(c any) bool) {
	rng := core.NewRng(core.SubSeed(seed, "smduel-cmd", tier))
	n := 6000
	if tier == "thorough" {
		n = 400000
	}
	for i := 0; i < n; i++ {
		c := CmdCase{Seed: rng.U64(), Suite: allSuites[i%4], SSC: genSSCMode(rng), N: rng.Range(1, 40), NoExt: rng.Chance(1, 4), BigData: rng.Chance(1, 25), Profile: rng.Intn(4)}
		if rng.Chance(1, 60) {
			c.N = rng.Range(200, 2000)
		}
		if !yield(c) {
			return
		}
	}
}

func (SMCmdEngine) Shrink(ci any) []any {
	x := ci.(CmdCase)
	var out []any
	add := func(m func(*CmdCase)) {
		y := x
		m(&y)
		if y != x {
			out = append(out, y)
		}
	}
	add(func(y *CmdCase) { y.N = 1 })
	add(func(y *CmdCase) { y.N /= 2 })
	add(func(y *CmdCase) { y.N-- })
	add(func(y *CmdCase) { y.NoExt = false })
	add(func(y *CmdCase) { y.SSC = sscMode{Mode: "zero"} })
	add(func(y *CmdCase) { y.Suite = chip.TDES })
	return out
}

type cmdSpec struct {
	ins, p1, p2 byte
	data        []byte
	le          int
}

func genCmd(rng *core.Rng, profile int, big bool) cmdSpec {
	var s cmdSpec
	s.ins = byte(rng.Intn(256))
	if rng.Chance(3, 4) {
		s.ins &^= 1
	}
	s.p1, s.p2 = byte(rng.Intn(256)), byte(rng.Intn(256))
	dl := 0
	switch rng.Intn(5) {
	case 0, 1:
	case 2:
		dl = core.Pick(rng, lenBand)
	case 3:
		dl = rng.Range(1, 300)
	case 4:
		dl = core.Pick(rng, []int{200, 220, 223, 224, 230, 231, 232, 238, 239, 240, 246, 247, 248, 255, 256, 4000, 32767, 32768})
	}
	if big {
		dl = core.Pick(rng, []int{65000, 65200, 65230, 65240, 65250, 65260, 65270, 65300, 65400, 65450, 65480, 65490, 65500})
	}
	s.data = rng.Bytes(dl)
	switch rng.Intn(6) {
	case 0, 1:
		s.le = 0
	case 2:
		s.le = rng.Range(1, 255)
	case 3:
		s.le = 256
	case 4:
		s.le = core.Pick(rng, []int{257, 258, 1000, 32767, 32768, 65535, 65536})
	case 5:
		s.le = rng.Range(257, 65536)
	}
	if profile == 1 && s.le > 256 {
		s.le = 256
	}
	return s
}

func (SMCmdEngine) Run(prop string, ci any) *core.Outcome {
	c := ci.(CmdCase)
	out := &core.Outcome{}
	term.InstallSeams()
	rng := core.NewRng(c.Seed)
	sm, cs, err := newDuel(c.Suite, c.SSC, rng)
	if err != nil {
		out.Discarded = "harness: " + err.Error()
		return out
	}
	card := &scriptCard{sm: cs, rng: rng, noExt: c.NoExt}
	var wantData []byte
	var wantSW uint16
	card.script = func(k int, p chip.CAPDU) ([]byte, uint16) {
		n := core.Pick(rng, lenBand)
		if p.HasLe && n > p.Le {
			n = p.Le
		}
		if !p.HasLe {
			n = 0
		}
		wantData, wantSW = rng.Bytes(n), core.Pick(rng, swSet)
		return wantData, wantSW
	}
	nfc := iso7816.NewNfcSession(card)
	nfc.SetSecureMessaging(sm)
	bigAt := -1
	if c.BigData {
		bigAt = rng.Intn(c.N)
	}
	afterReject := false
	cases := map[string]bool{}
	// a quarter of the runs send the pieces of one long message (derived from the case seed: no extra draw)
	chunked := c.Seed%4 == 1
	var arena, arenaRef, specIntended []byte
	cur := 0
	if chunked {
		arenaRef = core.NewRng(core.SubSeed(c.Seed, "arena")).Bytes(1 << 17)
		arena = bytes.Clone(arenaRef)
	}
	for k := 0; k < c.N; k++ {
		spec := genCmd(rng, c.Profile, k == bigAt)
		if chunked && len(spec.data) > 0 {
			// the caller sends consecutive pieces of one long message: each data field is a sub-slice of the same
			// buffer (spare capacity behind it holds the NEXT piece); the intended command is taken from the pristine copy
			if cur+len(spec.data) > len(arena) {
				arena, cur = bytes.Clone(arenaRef), 0
			}
			intended := arenaRef[cur : cur+len(spec.data)]
			spec.data = arena[cur : cur+len(spec.data)]
			cur += len(spec.data)
			defer func(got, want []byte, k int) {
				if !bytes.Equal(got, want) && len(out.Violations) == 0 {
					out.Violate("C10", "caller-data-modified", c.Suite, "exchange %d: the caller's command data field was modified by the library", k)
				}
			}(spec.data, intended, k)
			spec.data = spec.data[:len(spec.data):cap(spec.data)]
			specIntended = intended
			out.Probe("chunked_message_from_one_buffer")
		} else {
			specIntended = spec.data
		}
		sigBase := fmt.Sprintf("%s", c.Suite)
		before := card.n
		// plain class byte: mostly 00, sometimes command chaining (10), a logical channel (01) or proprietary (80)
		plainCLA := core.Pick(rng, []int{0, 0, 0, 0, 0, 0, 0x10, 0x01, 0x80, 0x04})
		cmd := iso7816.NewCApdu(byte(plainCLA), spec.ins, spec.p1, spec.p2, spec.data, spec.le)
		var r *iso7816.RApdu
		var e error
		var pan any
		func() {
			defer func() { pan = recover() }()
			r, e = nfc.DoAPDU(cmd, "duel")
		}()
		if pan != nil {
			out.Violate("C10", "panic", sigBase, "panic at exchange %d: %v", k, pan)
			break
		}
		if card.n != before+1 {
			if e != nil && card.n == before {
				// the library refused to build the command: allowed only if it is not protectable at all
				out.Violate("C10", "command-not-sent", sigBase, "exchange %d: DoAPDU failed before sending (data=%d le=%d): %v", k, len(spec.data), spec.le, e)
				break
			}
			out.Violate("C10", "exchange-count", sigBase, "exchange %d: %d commands on the wire for one DoAPDU", k, card.n-before)
			break
		}
		i := card.n - 1
		outer := card.outers[i]
		lcClass := "lc<256"
		if card.rawLens[i] > 255+6 {
			lcClass = "lc>=256"
		}
		if card.rawLens[i] >= 65280+9 {
			lcClass = "lc>=65280"
		}
		if card.outerErrs[i] != "" {
			out.Violate("C10", "malformed-apdu", lcClass, "exchange %d: protected command is not a well-formed ISO 7816-4 APDU: %s (plain data=%d le=%d, head=%x)", k, card.outerErrs[i], len(spec.data), spec.le, headOf(outer, 12))
			break
		}
		if card.rejected[i] {
			// transport-level rejection (extended length unsupported): state untouched on the chip
			out.Probe("transport_reject")
			if e == nil {
				out.Violate("C10", "reject-not-reported", sigBase, "exchange %d: unprotected 6700 was not reported as an error", k)
				break
			}
			if !bytes.Equal(sm.SSC(), cs.SSC) {
				out.Violate("C10", "ssc-lockstep", "after-transport-reject", "exchange %d: after an unprotected transport-level rejection terminal SSC=%x chip SSC=%x", k, sm.SSC(), cs.SSC)
				break
			}
			afterReject = true
			continue
		}
		if outer.CLA != 0x0C {
			out.Violate("C10", "cla", sigBase, "exchange %d: CLA=%02X on a protected command", k, outer.CLA)
			break
		}
		if card.plains[i] == nil {
			out.Violate("C10", "chip-cannot-authenticate", sigBase+"/"+lcClass, "exchange %d: reference chip rejects the protected command: %s (ins=%02X data=%d le=%d)", k, card.smErrs[i], spec.ins, len(spec.data), spec.le)
			break
		}
		p := card.plains[i]
		if !outer.HasLe || (outer.Le != 256 && outer.Le != 65536) {
			out.Violate("C10", "outer-le", sigBase, "exchange %d: protected command Le must be 00 / 0000 (got HasLe=%v Le=%d)", k, outer.HasLe, outer.Le)
			break
		}
		if p.INS != spec.ins || p.P1 != spec.p1 || p.P2 != spec.p2 || !bytes.Equal(p.Data, specIntended) {
			out.Violate("C10", "decrypts-to-other-command", sigBase, "exchange %d: chip decrypted header %02X%02X%02X data %d bytes, intended %02X%02X%02X data %d bytes", k, p.INS, p.P1, p.P2, len(p.Data), spec.ins, spec.p1, spec.p2, len(spec.data))
			break
		}
		if p.HasLe != (spec.le > 0) || (p.HasLe && p.Le != spec.le) {
			out.Violate("C10", "do97", sigBase, "exchange %d: requested Le=%d, DO97 present=%v value=%d", k, spec.le, p.HasLe, p.Le)
			break
		}
		if e != nil || r == nil {
			out.Violate("C10", "genuine-response-rejected", sigBase, "exchange %d: genuine protected response (data=%d sw=%04x) rejected: %v", k, len(wantData), wantSW, e)
			break
		}
		if !bytes.Equal(r.Data, wantData) || r.Status != wantSW {
			out.Violate("C03", "different-plaintext", sigBase, "exchange %d: delivered data/status differ from what the chip sent", k)
			break
		}
		if !bytes.Equal(sm.SSC(), cs.SSC) {
			out.Violate("C10", "ssc-lockstep", sigBase, "exchange %d: terminal SSC=%x chip SSC=%x", k, sm.SSC(), cs.SSC)
			break
		}
		if afterReject {
			out.Probe("authenticated_after_transport_reject")
			afterReject = false
		}
		allFF := true
		for _, b := range cs.SSC {
			if b != 0 {
				allFF = false
			}
		}
		if allFF {
			out.Probe("ssc_wrap")
		}
		if wantSW != 0x9000 {
			out.Probe("protected_error_status")
		}
		ic := "even"
		if spec.ins&1 == 1 {
			ic = "odd"
			out.Probe("odd_ins")
		}
		dc := "nodata"
		if len(spec.data) > 0 {
			dc = "data"
		}
		lec := "nole"
		switch {
		case spec.le > 256:
			lec = "le>256"
		case spec.le == 256:
			lec = "le256"
		case spec.le > 0:
			lec = "le<256"
		}
		cases[fmt.Sprintf("%s|%s|%s|%s|%s", c.Suite, ic, dc, lec, lcClass)] = true
	}
	out.Exchanges = card.n
	out.Fingerprint = card.log.Fingerprint()
	// distinct measure: the set of (suite, ins parity, data, le class, lc class) tuples seen, folded into one key per run plus run shape
	ks := ""
	for k := range cases {
		if k > ks {
			ks = k
		}
	}
	out.Key = fmt.Sprintf("%s|ssc=%s|noext=%v|n=%d|%s", c.Suite, c.SSC.Mode, c.NoExt, bucket(c.N), ks)
	return out
}

func bucket(n int) int {
	switch {
	case n <= 1:
		return 1
	case n <= 10:
		return 10
	case n <= 40:
		return 40
	}
	return 2000
}

func headOf(c chip.CAPDU, n int) []byte {
	b := []byte{c.CLA, c.INS, c.P1, c.P2}
	if len(c.Data) < n {
		n = len(c.Data)
	}
	return append(b, c.Data[:n]...)
}

// allocBudget: generous linear bound on bytes allocated while processing n input bytes
// (slog argument formatting, hex strings and APDU logs included).
func allocBudget(n int) uint64 { return 8<<20 + 2048*uint64(n) }

// sameMAC reports whether the delivered response still carries the genuine MAC data object
// (the value of the genuine DO'8E' appears in it unchanged; its length octets may be re-encoded).
func sameMAC(delivered, genuine []byte) bool {
	if len(genuine) < 4 {
		return false
	}
	ts, err := chip.ParseTLVs(genuine[:len(genuine)-2])
	if err != nil {
		return false
	}
	for _, t := range ts {
		if t.Tag == 0x8E {
			return bytes.Contains(delivered, t.Val)
		}
	}
	return false
}
