package engines

import (
	"sort"
	"encoding/json"
	"fmt"
	"strings"

	"verif/sim/chip"
	"verif/sim/core"
	"verif/sim/term"
	"verif/sim/world"
)

// e2e-faults (C11): for each chip configuration the fault-free read fixes the exchange count E;
// then every exchange index x every link fault kind is executed as its own run, followed by
// seeded multi-fault plans biased towards protocol transitions.

type FaultCase struct {
	Config int          `json:"config"`
	Faults []term.Fault `json:"faults"`
	Multi  bool         `json:"multi,omitempty"`
}

func i64(v int64) *int64 { return &v }

func faultConfigs() []world.WorldSpec {
	ec := func(id int) world.KeySpec { return world.KeySpec{Kind: "ec", CurveID: id} }
	base := func(seed uint64) world.WorldSpec {
		return world.WorldSpec{Seed: seed, Country: 1, CSCA: ec(12), CSCAScheme: world.SchemeSpec{Kind: "ecdsa", Hash: "SHA256"},
			DS: ec(12), DSScheme: world.SchemeSpec{Kind: "ecdsa", Hash: "SHA256"}, DGHash: "SHA256", SIDForm: "issuerSerial", LDSVersion: 1,
			Password: "mrz", DGs: []int{1, 2}, DG2Size: 300, DG7Size: 40, DG13Size: 20, B: chip.DefaultBehaviour(), MaxLe: 256, Layout: "TD3"}
	}
	var cs []world.WorldSpec
	add := func(m func(s *world.WorldSpec)) {
		s := base(uint64(1000 + len(cs)))
		m(&s)
		cs = append(cs, s)
	}
	add(func(s *world.WorldSpec) {
		s.BAC = true
		s.AA = &world.AASpec{Kind: "rsa", Bits: 1024, Hash: "SHA1"}
	})
	add(func(s *world.WorldSpec) {
		s.BAC = true
		s.PACE = []world.PaceSpec{{Suite: chip.TDES, ParamID: 13}}
		s.CA = &world.CASpec{CurveID: 13}
	})
	add(func(s *world.WorldSpec) {
		s.PACE = []world.PaceSpec{{Suite: chip.AES128, ParamID: 12}}
		s.Password = "can"
		s.AA = &world.AASpec{Kind: "ec", CurveID: 12}
	})
	add(func(s *world.WorldSpec) {
		s.BAC = true
		s.PACE = []world.PaceSpec{{Suite: chip.AES256, CAM: true, ParamID: 16}, {Suite: chip.AES128, ParamID: 16}}
	})
	add(func(s *world.WorldSpec) {
		s.PACE = []world.PaceSpec{{Suite: chip.AES192, ParamID: 15}}
		s.CA = &world.CASpec{CurveID: 15, Suites: []string{chip.AES192}, KeyID: i64(7), TwoKeys: true}
		s.DS, s.DSScheme = world.KeySpec{Kind: "rsa", Bits: 2048}, world.SchemeSpec{Kind: "pss", Hash: "SHA256"}
	})
	add(func(s *world.WorldSpec) {
		s.BAC = true
		s.CA = &world.CASpec{CurveID: 12, Suites: []string{chip.AES128}}
		s.AA = &world.AASpec{Kind: "rsa", Bits: 2048, Hash: "SHA256"}
		s.DS, s.DSScheme = world.KeySpec{Kind: "rsa", Bits: 2048}, world.SchemeSpec{Kind: "pkcs1", Hash: "SHA256"}
	})
	add(func(s *world.WorldSpec) {
		s.BAC = true
		s.MaxLe = 65536
		s.DG2Size = 1000
	})
	add(func(s *world.WorldSpec) {
		s.BAC = true
		s.PACE = []world.PaceSpec{{Suite: chip.AES128, ParamID: 13}}
		s.MaxLe = 65536
		s.B.ExtLen = false
	})
	add(func(s *world.WorldSpec) {
		s.BAC = true
		s.B.LeCap = 128
		s.DG2Size = 500
	})
	add(func(s *world.WorldSpec) {
		s.PACE = []world.PaceSpec{{Suite: chip.AES128, CAM: true, ParamID: 13}}
		s.AA = &world.AASpec{Kind: "ec", CurveID: 13}
		s.Password = "can"
	})
	add(func(s *world.WorldSpec) {
		s.BAC = true
		s.Untrusted = true
		s.CA = &world.CASpec{CurveID: 10, Suites: []string{chip.TDES}}
	})
	add(func(s *world.WorldSpec) {
		s.PACE = []world.PaceSpec{{Suite: chip.AES256, ParamID: 17}}
		s.DGs = []int{1, 2, 7, 11, 12, 13, 16}
		s.DG2Size = 40
	})
	return cs
}

type faultVariant struct {
	kind string
	a, b int
}

var faultVariants = func() []faultVariant {
	v := []faultVariant{
		{"resp_lost", 0, 0}, {"cmd_lost", 0, 0}, {"chip_power_cycle", 0, 0}, {"link_dead_from", 0, 0},
		{"resp_truncate", 0, 0}, {"resp_truncate", 1, 0}, {"resp_truncate", 2, 0}, {"resp_truncate", -1, 0}, {"resp_truncate", -2, 0}, {"resp_truncate", -3, 0}, {"resp_truncate", -10, 0},
		{"resp_garble", 0, 0x01}, {"resp_garble", 0, 0x80}, {"resp_garble", 1, 0x40}, {"resp_garble", 5, 0x01}, {"resp_garble", -1, 0x01}, {"resp_garble", -2, 0x80}, {"resp_garble", -3, 0x01}, {"resp_garble", -5, 0xFF}, {"resp_garble", -12, 0x10},
		{"resp_oversize", 1, 0}, {"resp_oversize", 1, 1}, {"resp_oversize", 1, 2}, {"resp_oversize", 300, 1}, {"resp_oversize", 70000, 1},
		{"resp_replay", 0, 0}, {"resp_replay", -1, 0}, {"resp_replay", -2, 0}, {"resp_swap", 0, 0},
		{"do_drop", 0, 0}, {"do_drop", 1, 0}, {"do_drop", -1, 0}, {"do_dup", 0, 0}, {"do_reorder", 0, 0}, {"do_nonminimal_len", 0, 0}, {"sw_mismatch", 1, 0},
	}
	for _, sw := range []int{0x9000, 0x6A82, 0x6982, 0x6700, 0x6300, 0x6988, 0x6283, 0x6282, 0x6B00} {
		v = append(v, faultVariant{"resp_status", sw, 0})
	}
	return v
}()

// quickVariants: the reduced grid applied in the quick tier to the configurations outside the rotating three.
var quickVariants = []faultVariant{
	{"resp_lost", 0, 0}, {"chip_power_cycle", 0, 0}, {"resp_truncate", -1, 0}, {"resp_truncate", 2, 0}, {"resp_garble", 0, 0x01}, {"resp_garble", -3, 0x01},
	{"resp_oversize", 1, 1}, {"resp_replay", -1, 0}, {"resp_swap", 0, 0}, {"do_drop", 0, 0}, {"do_drop", -1, 0}, {"do_dup", 0, 0}, {"do_reorder", 0, 0},
	{"sw_mismatch", 1, 0}, {"resp_status", 0x9000, 0}, {"resp_status", 0x6982, 0}, {"resp_status", 0x6700, 0},
}

type baseline struct {
	e           int
	transitions []int
	files       []string // LDS files (EF.COM, EF.SOD, data groups) the fault-free read returns
	clear       []string // files of the master file read in the clear (EF.CardAccess, EF.DIR) the fault-free read returns
	aa, ca      bool     // the fault-free read attempted Active / Chip Authentication (a result or an error is recorded)
	paceOid     string   // protocol the fault-free read ran PACE with ("" = no PACE)
	cam         bool     // ... and it produced a PACE-CAM result
}

var baselineCache = map[int]baseline{}

func baselineFor(cfg int, spec world.WorldSpec) baseline {
	if b, ok := baselineCache[cfg]; ok {
		return b
	}
	out := &core.Outcome{}
	r := runRead(spec, nil, out, nil)
	b := baseline{e: r.Link.N}
	if r.Doc != nil {
		for name := range docFileMap(&r.Doc.Document) {
			if name == "com" || name == "sod" || strings.HasPrefix(name, "dg") {
				b.files = append(b.files, name)
			}
			if name == "cardAccess" || name == "dir" {
				b.clear = append(b.clear, name)
			}
		}
		sort.Strings(b.files)
		sort.Strings(b.clear)
		ss := r.Doc.Session
		b.aa = ss.ActiveAuthResult != nil || ss.ActiveAuthErr != nil
		b.ca = ss.ChipAuthResult != nil || ss.ChipAuthErr != nil
		if ss.PaceResult != nil && ss.PaceResult.Success {
			b.paceOid = ss.PaceResult.Oid.String()
		}
		b.cam = ss.PaceCamResult != nil && ss.PaceCamResult.Success
	}
	for _, ex := range r.Chip.Log {
		a := ex.Action
		if strings.HasPrefix(a, "mse") || strings.HasPrefix(a, "pace step4") || strings.HasPrefix(a, "ca general") || strings.HasPrefix(a, "external-authenticate") ||
			strings.HasPrefix(a, "select-ef") || strings.HasPrefix(a, "internal-authenticate") || strings.HasPrefix(a, "select-lds1") {
			b.transitions = append(b.transitions, ex.N, ex.N+1)
		}
	}
	baselineCache[cfg] = b
	return b
}

type E2EFaultEngine struct{}

func (E2EFaultEngine) Name() string { return "e2e-faults" }
func (E2EFaultEngine) Decode(raw json.RawMessage) (any, error) {
	var c FaultCase
	err := json.Unmarshal(raw, &c)
	return c, err
}

func quickConfigs(seed uint64) []int {
	// three configurations per quick run, rotating with the seed so that repeated quick runs cover all
	n := len(faultConfigs())
	s := int(seed % uint64(n))
	return []int{s % n, (s + 4) % n, (s + 8) % n}
}

func (E2EFaultEngine) Gen(prop, tier string, seed uint64, yield func(c any) bool) {
	cfgs := faultConfigs()
	var use []int
	if tier == "thorough" {
		for i := range cfgs {
			use = append(use, i)
		}
	} else {
		use = quickConfigs(seed)
	}
	for _, ci := range use {
		b := baselineFor(ci, cfgs[ci])
		for k := 0; k < b.e; k++ {
			for _, v := range faultVariants {
				if !yield(FaultCase{Config: ci, Faults: []term.Fault{{At: k, Kind: v.kind, A: v.a, B: v.b}}}) {
					return
				}
			}
		}
	}
	if tier != "thorough" {
		// the configurations outside this run's rotation: every exchange index x one or two representatives of each fault kind
		inUse := map[int]bool{}
		for _, ci := range use {
			inUse[ci] = true
		}
		for ci := range cfgs {
			if inUse[ci] {
				continue
			}
			b := baselineFor(ci, cfgs[ci])
			for k := 0; k < b.e; k++ {
				for _, v := range quickVariants {
					if !yield(FaultCase{Config: ci, Faults: []term.Fault{{At: k, Kind: v.kind, A: v.a, B: v.b}}}) {
						return
					}
				}
			}
		}
	}
	// targeted multi-step plans: 1-3 bare status words in a row followed by a replay of the last response delivered
	// before them (the shape the read-size fallback ladder produces), at every exchange index
	for _, ci := range use {
		b := baselineFor(ci, cfgs[ci])
		for k := 1; k < b.e; k++ {
			for nk := 1; nk <= 3; nk++ {
				var fs []term.Fault
				for j := 0; j < nk; j++ {
					fs = append(fs, term.Fault{At: k + j, Kind: "resp_status", A: []int{0x6700, 0x6A82, 0x6982}[(k+j)%3]})
				}
				fs = append(fs, term.Fault{At: k + nk, Kind: "resp_replay", A: -(nk + 1)})
				if !yield(FaultCase{Config: ci, Faults: fs, Multi: true}) {
					return
				}
			}
		}
	}
	rng := core.NewRng(core.SubSeed(seed, "e2e-faults", tier))
	n := 1500
	if tier == "thorough" {
		n = 100000
	}
	for i := 0; i < n; i++ {
		ci := use[i%len(use)]
		b := baselineFor(ci, cfgs[ci])
		nf := rng.Range(2, 5)
		var fs []term.Fault
		for j := 0; j < nf; j++ {
			v := core.Pick(rng, faultVariants)
			at := rng.Intn(b.e + 5)
			if len(b.transitions) > 0 && rng.Chance(1, 2) {
				at = core.Pick(rng, b.transitions)
			}
			if v.kind == "link_dead_from" && rng.Chance(3, 4) {
				v = faultVariant{"resp_garble", rng.Intn(40) - 20, 1 << uint(rng.Intn(8))}
			}
			fs = append(fs, term.Fault{At: at, Kind: v.kind, A: v.a, B: v.b})
		}
		if !yield(FaultCase{Config: ci, Faults: fs, Multi: true}) {
			return
		}
	}
}

func (E2EFaultEngine) Shrink(ci any) []any {
	c := ci.(FaultCase)
	var out []any
	for i := range c.Faults {
		y := FaultCase{Config: c.Config, Multi: c.Multi}
		y.Faults = append(append([]term.Fault{}, c.Faults[:i]...), c.Faults[i+1:]...)
		if len(y.Faults) > 0 || len(c.Faults) > 1 {
			out = append(out, y)
		}
	}
	for i, f := range c.Faults {
		if f.Kind != "resp_lost" {
			y := FaultCase{Config: c.Config, Multi: c.Multi, Faults: append([]term.Fault{}, c.Faults...)}
			y.Faults[i] = term.Fault{At: f.At, Kind: "resp_lost"}
			out = append(out, y)
		}
	}
	return out
}

func (E2EFaultEngine) Run(prop string, ci any) *core.Outcome {
	c := ci.(FaultCase)
	out := &core.Outcome{}
	cfgs := faultConfigs()
	spec := cfgs[c.Config%len(cfgs)]
	b := baselineFor(c.Config, spec)
	r := runRead(spec, c.Faults, out, func(r *ReadRun) { r.Link.MaxExchanges = 10*b.e + 2000 })
	out.Exchanges = r.Link.N
	out.Fingerprint = r.Link.Log.Fingerprint()
	sig := fmt.Sprintf("cfg%d", c.Config)
	kinds := ""
	for _, f := range c.Faults {
		kinds += f.Kind + "+"
	}
	if r.Panic != nil {
		out.Violate("C11", "panic", sig+"/"+kinds, "panic escaped ReadDocument under faults %v: %v", c.Faults, r.Panic)
		return out
	}
	if r.Link.Overrun {
		out.Violate("C11", "no-termination", sig+"/"+kinds, "read did not end within %d exchanges (fault-free read: %d) under faults %v", r.Link.MaxExchanges, b.e, c.Faults)
	}
	if r.Slog > 3000000 {
		out.Violate("C11", "step-bound", sig+"/"+kinds, "%d logging steps in one read (fault-free scale: %d exchanges)", r.Slog, b.e)
	}
	smExchangeOracle(out, "C11", r)
	plainProtocolOracle(out, "C11", r)
	if r.Doc == nil && r.Err == nil {
		out.Violate("C11", "no-result", sig, "ReadDocument returned neither a document nor an error")
	}
	if r.Doc != nil {
		// (2) files read under secure messaging must be identical; CardAccess is read in the clear
		clear := map[string]bool{"CardAccess": true}
		for _, ex := range r.Chip.Log {
			// files (or parts of files) that travelled without secure messaging in this run, e.g. EF.DIR read before the
			// fall-back to BAC after a PACE attempt that a fault broke
			if !ex.ViaSM && strings.HasPrefix(ex.Action, "read-binary 2F00") {
				clear["DIR"] = true
			}
			if !ex.ViaSM && strings.HasPrefix(ex.Action, "read-binary 011D") {
				clear["CardSecurity"] = true
			}
		}
		same := checkFilesIdentical(out, "C11", r, clear)
		sum := r.Doc.Summary()
		d := r.Doc.Document
		if d.Mf.CardAccess != nil && string(d.Mf.CardAccess.RawData) != string(r.W.MF[chip.FidCardAccess]) {
			out.Probe("clear_file_modified")
			if d.Mf.Lds1.Dg14 != nil && sum.DataTrusted {
				out.Violate("C11", "trusted-with-modified-cardaccess", sig, "EF.CardAccess was modified in transit, DG14 is present, yet the result is DataTrusted")
			}
		}
		// (2b) "ends with an error or with that step recorded as failed": a read that reports completion without any
		// recorded failure must hold every LDS file the fault-free read of the same chip returns (these files are
		// read under secure messaging, where the link cannot forge an authentic "not found")
		if s := r.Doc.Session; r.Err == nil && s.BacErr == nil && s.PaceErr == nil && s.ChipAuthErr == nil && s.ActiveAuthErr == nil && s.DocumentVerifyErr == nil && s.PassiveAuthErr == nil {
			got := docFileMap(&d)
			for _, name := range b.files {
				if _, ok := got[name]; !ok {
					out.Violate("C11", "file-silently-missing", name, "the read completed without an error and without a step recorded as failed, but %s (stored on the chip, returned by the fault-free read) is missing under faults %v", name, c.Faults)
				}
			}
			// files read in the clear: a forged "not found" status is beyond any terminal, but an empty, truncated, garbled,
			// oversized or lost response is not a "not found" and must not make the file vanish silently
			forgedStatus := false
			for _, kind := range r.Link.FaultAt {
				switch kind {
				case "resp_truncate", "resp_garble", "resp_oversize", "resp_lost", "cmd_lost", "do_drop", "do_dup", "do_reorder", "do_nonminimal_len":
				case "resp_status":
					for _, f := range c.Faults {
						// only a status that says "no such file" (6A82, or 6283 "selected file deactivated") can pass for the
						// chip's own answer that the file is absent; any other error status is an error
						if f.Kind == "resp_status" && (f.A == 0x6A82 || f.A == 0x6283) {
							forgedStatus = true
						}
					}
				default:
					forgedStatus = true // replay / swap of an earlier status, power cycle, ...
				}
			}
			if !forgedStatus {
				for _, name := range b.clear {
					if _, ok := got[name]; !ok {
						out.Violate("C11", "clear-file-silently-missing", name, "the read completed without an error and without a step recorded as failed, but %s is missing although no response carried a not-found status (faults %v)", name, c.Faults)
					}
				}
			}
			// authentication steps run under secure messaging: once the fault-free read attempts one, a completed read
			// without recorded failure must show its result (Chip Authentication may legitimately be left out when
			// Active Authentication or PACE-CAM already succeeded)
			// PACE completed: with the protocol the fault-free read uses (a fault must not silently steer the session
			// to a weaker advertised protocol), and with its chip-authentication part if the fault-free read has one
			if s.PaceResult != nil && s.PaceResult.Success && b.paceOid != "" {
				if got := s.PaceResult.Oid.String(); got != b.paceOid {
					out.Violate("C11", "protocol-silently-changed", "PACE", "the read completed without an error; PACE ran with %s, the fault-free read of the same chip uses %s (faults %v)", got, b.paceOid, c.Faults)
				}
				if b.cam && s.PaceCamResult == nil {
					out.Violate("C11", "step-silently-skipped", "PACE-CAM", "the read completed without an error and PACE succeeded, but the chip-authentication part of PACE-CAM left neither a result nor an error (faults %v)", c.Faults)
				}
			}
			if b.aa && s.ActiveAuthResult == nil {
				out.Violate("C11", "step-silently-skipped", "AA", "the read completed without an error, Active Authentication has neither a result nor an error recorded (faults %v)", c.Faults)
			}
			if b.ca && s.ChipAuthResult == nil && !(s.ActiveAuthResult != nil && s.ActiveAuthResult.Success) && !(s.PaceCamResult != nil && s.PaceCamResult.Success) {
				out.Violate("C11", "step-silently-skipped", "CA", "the read completed without an error, Chip Authentication has neither a result nor an error recorded (faults %v)", c.Faults)
			}
		}
		// (3) reported successes are ones the chip completed
		stepsVsChip(out, "C11", r)
		// (4) DataTrusted only if the files obtained pass passive authentication
		if sum.DataTrusted {
			out.Probe("trusted_despite_fault")
			if !same {
				out.Violate("C11", "trusted-with-wrong-files", sig, "DataTrusted although a returned file differs from the chip's")
			}
			if spec.Untrusted {
				out.Violate("C11", "trusted-with-untrusted-issuer", sig, "DataTrusted although the issuing chain is not in the trust store")
			}
		}
		trustInvariant(out, r.Doc, "e2e-faults")
	}
	if r.Chip.Facts.PlainWhileSM > 0 {
		out.Probe("plain_command_while_chip_had_session")
	}
	oc := "error"
	if r.Err == nil {
		oc = "completed"
		out.Probe("read_completed_despite_fault")
	}
	fired := len(r.Link.FaultAt) > 0
	if !fired {
		out.Discarded = "fault-did-not-fire"
		return out
	}
	if c.Multi {
		out.Key = fmt.Sprintf("%s|multi|%s|%s", sig, kinds, oc)
	} else {
		f := c.Faults[0]
		out.Key = fmt.Sprintf("%s|k=%d|%s(%d,%d)|%s", sig, f.At, f.Kind, f.A, f.B, oc)
	}
	return out
}
