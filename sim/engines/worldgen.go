package engines

import (
	"verif/sim/chip"
	"verif/sim/core"
	"verif/sim/pki"
	"verif/sim/world"
)

var aesSuites = []string{chip.AES128, chip.AES192, chip.AES256}

func genKeySpec(rng *core.Rng, heavy bool) (world.KeySpec, world.SchemeSpec) {
	if rng.Chance(1, 2) {
		bits := core.Pick(rng, []int{1024, 1536, 2048, 2048, 3072, 4096})
		if !heavy && bits > 2048 {
			bits = 2048
		}
		kind := core.Pick(rng, []string{"pkcs1", "pss"})
		hash := core.Pick(rng, pki.Hashes)
		if kind == "pss" && bits <= 1024 && (hash == "SHA512" || hash == "SHA384") {
			hash = "SHA256"
		}
		return world.KeySpec{Kind: "rsa", Bits: bits}, world.SchemeSpec{Kind: kind, Hash: hash}
	}
	return world.KeySpec{Kind: "ec", CurveID: core.Pick(rng, chip.AllParamIDs), Explicit: rng.Chance(1, 2)}, world.SchemeSpec{Kind: "ecdsa", Hash: core.Pick(rng, pki.Hashes)}
}

// genIssuer fills the issuing profile.
func genIssuer(rng *core.Rng, s *world.WorldSpec, heavy bool) {
	s.CSCA, s.CSCAScheme = genKeySpec(rng, heavy)
	s.DS, s.DSScheme = genKeySpec(rng, heavy)
	s.DGHash = core.Pick(rng, pki.Hashes)
	s.SIDForm = core.Pick(rng, []string{"issuerSerial", "issuerSerial", "ski"})
	s.LDSVersion = rng.Intn(2)
	s.NoSigning = rng.Chance(1, 4)
	s.HashNoParams = rng.Chance(1, 5)
	s.Country = rng.Intn(7)
}

func genBehaviour(rng *core.Rng, inEnvelope bool) (chip.Behaviour, int) {
	b := chip.DefaultBehaviour()
	maxLe := 256
	switch rng.Intn(6) {
	case 0:
		maxLe = core.Pick(rng, []int{128, 192, 223, 231, 255})
	case 1:
		maxLe = core.Pick(rng, []int{1000, 4096, 32768, 65535, 65536})
	case 2:
		maxLe = rng.Range(64, 256)
	}
	b.ExtLen = rng.Chance(2, 3)
	switch rng.Intn(8) {
	case 0:
		b.MaxResp = core.Pick(rng, []int{8, 31, 100, 223, 231, 255})
	case 1:
		b.ShortMode, b.ShortFixed = "fixed", rng.Range(4, 300)
	case 2:
		b.LeCap = core.Pick(rng, []int{128, 160, 192, 223, 231, 255})
	case 3:
		if !inEnvelope {
			b.ShortMode = core.Pick(rng, []string{"one", "alt", "rand"})
		}
	case 4:
		if !inEnvelope {
			b.LeCap = core.Pick(rng, []int{1, 50, 100, 127})
		}
	}
	b.EOFWarning = rng.Chance(1, 5)
	b.MFImplicit = rng.Chance(4, 5)
	b.MFExplicit = rng.Chance(4, 5)
	b.GlobalFid = rng.Chance(1, 4)
	b.ACAtRead = rng.Chance(1, 4)
	if inEnvelope && maxLe > 256 && !b.ExtLen {
		maxLe = 256
	}
	return b, maxLe
}

// genWorld draws a complete conforming world. i is the run index used for stratification.
func genWorld(rng *core.Rng, i int, inEnvelope bool) world.WorldSpec {
	s := world.WorldSpec{Seed: rng.U64()}
	genIssuer(rng, &s, i%7 == 0)
	s.Untrusted = rng.Chance(1, 6)
	s.DecoyAnchors = rng.Intn(3)
	if rng.Chance(1, 8) {
		s.Indefinite = true
	}
	// access control arrangement
	access := i % 4 // 0 BAC only, 1 PACE+BAC, 2 PACE only, 3 PACE-CAM
	param := chip.AllParamIDs[(i/4)%len(chip.AllParamIDs)]
	suite := allSuites[(i/44)%4]
	switch access {
	case 0:
		s.BAC = true
		s.Password = core.Pick(rng, []string{"mrz", "mrzi", "dg1"})
		if rng.Chance(1, 3) {
			// EF.CardAccess advertises only PACE variants the terminal does not implement: BAC fallback needed
			s.PaceJunk = rng.Range(1, 2)
		}
	case 1:
		s.BAC = true
		s.PACE = []world.PaceSpec{{Suite: suite, ParamID: param}}
		s.Password = core.Pick(rng, []string{"mrz", "mrzi", "dg1", "can"})
		s.SkipPace = rng.Chance(1, 6) && s.Password != "can"
	case 2:
		s.PACE = []world.PaceSpec{{Suite: suite, ParamID: param}}
		s.Password = core.Pick(rng, []string{"mrz", "mrzi", "dg1", "can", "can"})
	case 3:
		if suite == chip.TDES {
			suite = chip.AES128
		}
		s.BAC = rng.Bool()
		s.PACE = []world.PaceSpec{{Suite: suite, CAM: true, ParamID: param}}
		if rng.Bool() {
			s.PACE = append(s.PACE, world.PaceSpec{Suite: core.Pick(rng, allSuites), ParamID: param})
		}
		s.Password = core.Pick(rng, []string{"mrz", "mrzi", "can"})
	}
	if len(s.PACE) > 0 {
		s.PaceJunk = rng.Intn(3)
		if access != 3 && rng.Chance(1, 4) {
			// a second supported info with lower preference
			s.PACE = append(s.PACE, world.PaceSpec{Suite: chip.TDES, ParamID: core.Pick(rng, chip.AllParamIDs)})
			if s.PACE[0].Suite == chip.TDES && s.PACE[1].ParamID == s.PACE[0].ParamID {
				s.PACE = s.PACE[:1]
			}
		}
	}
	// chip authentication arrangements
	switch rng.Intn(5) {
	case 0, 1:
		ca := &world.CASpec{CurveID: core.Pick(rng, chip.AllParamIDs), Explicit: rng.Bool()}
		switch rng.Intn(4) {
		case 0: // legacy: no info, suite inferred
		case 1:
			ca.Suites = []string{core.Pick(rng, allSuites)}
			if rng.Chance(1, 3) {
				// two protocols advertised, the preferred one not first
				ca.Suites = []string{chip.TDES, core.Pick(rng, aesSuites)}
			}
		case 2:
			ca.Suites = []string{core.Pick(rng, allSuites)}
			id := int64(rng.Range(1, 300))
			ca.KeyID = &id
		case 3:
			ca.Suites = []string{core.Pick(rng, allSuites)}
			id := int64(rng.Range(1, 300))
			ca.KeyID = &id
			ca.TwoKeys = true
		}
		s.CA = ca
	}
	switch rng.Intn(5) {
	case 0:
		s.AA = &world.AASpec{Kind: "rsa", Bits: core.Pick(rng, []int{1024, 1280, 1536, 2048}), Hash: core.Pick(rng, pki.Hashes), M1: core.Pick(rng, []string{"random", "zero", "ff", "leadzero"})}
	case 1:
		s.AA = &world.AASpec{Kind: "ec", CurveID: core.Pick(rng, chip.AllParamIDs), Explicit: rng.Bool(), DER: rng.Chance(1, 5)}
	}
	s.AAChallenge = rng.Bool()
	// data groups
	s.DGs = []int{1}
	for _, n := range []int{2, 7, 11, 12, 13, 16} {
		if rng.Chance(1, 2) {
			s.DGs = append(s.DGs, n)
		}
	}
	s.DG2Size = core.Pick(rng, []int{16, 90, 200, 230, 1000, 3000, 15000})
	if rng.Chance(1, 12) {
		s.DG2Size = core.Pick(rng, []int{32600, 32700, 33000, 40000, 60000})
	}
	s.DG7Size = core.Pick(rng, []int{16, 100, 250, 2000})
	s.DG13Size = core.Pick(rng, []int{1, 2, 100, 125, 126, 127, 250, 251, 252, 253, 254, 255, 256, 1000})
	if rng.Chance(1, 16) {
		// files at the very top of what a 2-octet TLV length allows: total 65537..65539 bytes (offsets >= 65536 exist)
		s.DG13Size = core.Pick(rng, []int{65529, 65530, 65531, 65531})
		has := false
		for _, d := range s.DGs {
			has = has || d == 13
		}
		if !has {
			s.DGs = append(s.DGs, 13)
		}
	}
	if rng.Chance(1, 5) {
		s.EACDGs = []int{3}
		if rng.Bool() {
			s.EACDGs = append(s.EACDGs, 4)
		}
	}
	s.SkipImages = rng.Chance(1, 6)
	s.B, s.MaxLe = genBehaviour(rng, inEnvelope)
	// order of the data group hash list in the security object: a SEQUENCE OF, ascending by custom only
	s.HashOrder = core.Pick(rng, []int{0, 0, 0, 1, 2, 3, 4})
	// EF.CardSecurity (PACE-CAM worlds): signed by the SOD's signer or by another generation, with further keys or not
	s.CardSecVariant = core.Pick(rng, []int{0, 0, 0, 1, 2, 3})
	s.CardSecExtraKeys = core.Pick(rng, []int{0, 0, 1, 2})
	s.ExtraCerts = core.Pick(rng, []int{0, 0, 0, 1})
	s.ExtraFirst = rng.Bool()
	s.EmbedCSCA = rng.Chance(1, 6)
	return s
}
