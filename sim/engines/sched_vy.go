//go:build vyinstr

package engines

import vy "github.com/gmrtd/gmrtd/vy"

// Built against an instrumented scratch copy of gmrtd (cmd/instr): yield points inside the library's own code.
const vyInstrumented = true

func vyHookInstall(on bool) {
	if on {
		vy.Hook = func() { schedYield("lib") }
	} else {
		vy.Hook = nil
	}
}
