package chip

import (
	"bytes"
	"crypto/elliptic"
	"crypto/sha1"
	"fmt"
	"math/big"
)

type paceState struct {
	sup      PaceSupport
	curve    elliptic.Curve
	kpi      []byte
	step     int
	nonce    []byte
	skMap    *big.Int
	pkMapX   *big.Int
	pkMapY   *big.Int
	gx, gy   *big.Int
	skIC     *big.Int
	pkICX    *big.Int
	pkICY    *big.Int
	pkIFD    []byte // encoded terminal agreement key
	pkIFDMap []byte
	kenc     []byte
	kmac     []byte
}

// PasswordKey computes K_pi = KDF(f(pi), 3).
func PasswordKey(suite string, mrzInfo, can string, ref byte) []byte {
	switch ref {
	case 1:
		h := sha1.Sum([]byte(mrzInfo))
		return KDF(h[:], 3, suite)
	case 2:
		return KDF([]byte(can), 3, suite)
	}
	return nil
}

func (c *Chip) doMSE(cmd CAPDU, viaSM bool, ex *Exchange) ([]byte, uint16) {
	p1p2 := int(cmd.P1)<<8 | int(cmd.P2)
	if cmd.HasLe {
		ex.Action = "mse with-le"
		return nil, 0x6700
	}
	ts, err := ParseTLVs(cmd.Data)
	if err != nil {
		ex.Action = "mse bad-tlv"
		return nil, 0x6A80
	}
	switch p1p2 {
	case 0xC1A4:
		return c.mseSetATPace(ts, ex)
	case 0x41A4:
		return c.mseSetATCA(ts, viaSM, ex)
	case 0x41A6:
		return c.mseSetKAT(ts, viaSM, ex)
	}
	ex.Action = "mse unsupported-p1p2"
	return nil, 0x6A86
}

func (c *Chip) mseSetATPace(ts []TLV, ex *Exchange) ([]byte, uint16) {
	ex.Action = "mse-set-at-pace"
	c.pace = nil
	oid := findTLV(ts, 0x80)
	ref := findTLV(ts, 0x83)
	par := findTLV(ts, 0x84)
	if oid == nil || ref == nil || len(ref.Val) != 1 {
		return nil, 0x6A80
	}
	var match []PaceSupport
	for _, s := range c.P.PACE {
		if !bytes.Equal(EncOID(s.OID), oid.Val) {
			continue
		}
		if par != nil {
			if len(par.Val) != 1 || int(par.Val[0]) != s.ParamID {
				continue
			}
		}
		match = append(match, s)
	}
	if len(match) == 0 {
		ex.Action = "mse-set-at-pace unsupported"
		return nil, 0x6A80
	}
	if len(match) > 1 {
		ex.Action = "mse-set-at-pace ambiguous"
		return nil, 0x6A80
	}
	var kpi []byte
	switch ref.Val[0] {
	case 1:
		if c.P.MrzInfo == "" {
			return nil, 0x6A88
		}
	case 2:
		if c.P.CAN == "" {
			return nil, 0x6A88
		}
	default:
		return nil, 0x6A88
	}
	kpi = PasswordKey(match[0].Suite, c.P.MrzInfo, c.P.CAN, ref.Val[0])
	c.pace = &paceState{sup: match[0], curve: CurveByParamID(match[0].ParamID), kpi: kpi, step: 1}
	return nil, 0x9000
}

func unwrap7C(data []byte) ([]TLV, bool) {
	ts, err := ParseTLVs(data)
	if err != nil || len(ts) != 1 || ts[0].Tag != 0x7C {
		return nil, false
	}
	in, err := ParseTLVs(ts[0].Val)
	if err != nil {
		return nil, false
	}
	return in, true
}

func (c *Chip) randScalar(curve elliptic.Curve) *big.Int {
	n := curve.Params().N
	for {
		k := new(big.Int).SetBytes(c.Rng.Bytes((n.BitLen() + 7) / 8))
		k.Mod(k, n)
		if k.Sign() > 0 {
			return k
		}
	}
}

func leadingZeroOctets(curve elliptic.Curve, x *big.Int) int {
	b := FE2OS(curve, x)
	n := 0
	for n < len(b) && b[n] == 0 {
		n++
	}
	return n
}

func (c *Chip) failPace(ex *Exchange, why string, code uint16) ([]byte, uint16) {
	ex.Action = "pace " + why
	c.pace = nil
	return nil, code
}

func (c *Chip) doGeneralAuthenticate(cmd CAPDU, viaSM bool, ex *Exchange) ([]byte, uint16) {
	if cmd.P1 != 0 || cmd.P2 != 0 {
		return nil, 0x6A86
	}
	if !cmd.HasLe {
		ex.Action = "general-authenticate no-le"
		return nil, 0x6700
	}
	in, ok := unwrap7C(cmd.Data)
	if !ok {
		ex.Action = "general-authenticate bad-7c"
		c.pace = nil
		return nil, 0x6A80
	}
	chaining := cmd.CLA&0x10 != 0
	if c.pace != nil {
		return c.paceStep(in, chaining, ex)
	}
	if c.caAT != nil {
		return c.caGeneralAuthenticate(in, chaining, viaSM, ex)
	}
	ex.Action = "general-authenticate no-context"
	return nil, 0x6985
}

func (c *Chip) paceStep(in []TLV, chaining bool, ex *Exchange) ([]byte, uint16) {
	ps := c.pace
	curve := ps.curve
	switch ps.step {
	case 1:
		if len(in) != 0 || !chaining {
			return c.failPace(ex, "step1 malformed", 0x6A80)
		}
		if c.Ov.PaceNonce != nil {
			ps.nonce = bytes.Clone(c.Ov.PaceNonce)
		} else {
			ps.nonce = c.Rng.Bytes(16)
		}
		z := cbcEnc(newBlock(ps.sup.Suite, ps.kpi), make([]byte, blockSize(ps.sup.Suite)), ps.nonce)
		ps.step = 2
		ex.Action = "pace step1 nonce"
		return EncTLV(0x7C, EncTLV(0x80, z)), 0x9000
	case 2:
		if len(in) != 1 || in[0].Tag != 0x81 || !chaining {
			return c.failPace(ex, "step2 malformed", 0x6A80)
		}
		x, y, err := DecodePoint(curve, in[0].Val)
		if err != nil {
			return c.failPace(ex, "step2 bad point", 0x6A80)
		}
		ps.pkIFDMap = bytes.Clone(in[0].Val)
		ps.skMap = c.randScalar(curve)
		ps.pkMapX, ps.pkMapY = curve.ScalarBaseMult(ps.skMap.Bytes())
		if bytes.Equal(EncodePoint(curve, ps.pkMapX, ps.pkMapY), in[0].Val) {
			return c.failPace(ex, "step2 equal keys", 0x6A80)
		}
		hx, hy := curve.ScalarMult(x, y, ps.skMap.Bytes())
		sgx, sgy := curve.ScalarBaseMult(ps.nonce)
		ps.gx, ps.gy = curve.Add(sgx, sgy, hx, hy)
		if ps.gx.Sign() == 0 && ps.gy.Sign() == 0 {
			return c.failPace(ex, "step2 mapped generator is infinity", 0x6A80)
		}
		ps.step = 3
		ex.Action = "pace step2 map"
		return EncTLV(0x7C, EncTLV(0x82, EncodePoint(curve, ps.pkMapX, ps.pkMapY))), 0x9000
	case 3:
		if len(in) != 1 || in[0].Tag != 0x83 || !chaining {
			return c.failPace(ex, "step3 malformed", 0x6A80)
		}
		x, y, err := DecodePoint(curve, in[0].Val)
		if err != nil {
			return c.failPace(ex, "step3 bad point", 0x6A80)
		}
		ps.pkIFD = bytes.Clone(in[0].Val)
		var kx *big.Int
		for try := 0; ; try++ {
			ps.skIC = c.randScalar(curve)
			ps.pkICX, ps.pkICY = curve.ScalarMult(ps.gx, ps.gy, ps.skIC.Bytes())
			kx, _ = curve.ScalarMult(x, y, ps.skIC.Bytes())
			if try > 200000 {
				break
			}
			if c.B.GrindSharedZeros > 0 && leadingZeroOctets(curve, kx) < c.B.GrindSharedZeros {
				continue
			}
			if c.B.GrindPubZeros > 0 && leadingZeroOctets(curve, ps.pkICX) < c.B.GrindPubZeros {
				continue
			}
			break
		}
		if bytes.Equal(EncodePoint(curve, ps.pkICX, ps.pkICY), in[0].Val) {
			return c.failPace(ex, "step3 equal keys", 0x6A80)
		}
		k := FE2OS(curve, kx) // TR-03111: shared secret is the fixed-length x coordinate
		if k[0] == 0 {
			c.Facts.SharedSecretsZeros++
		}
		ps.kenc = KDF(k, 1, ps.sup.Suite)
		ps.kmac = KDF(k, 2, ps.sup.Suite)
		ps.step = 4
		ex.Action = "pace step3 key-agreement"
		return EncTLV(0x7C, EncTLV(0x84, EncodePoint(curve, ps.pkICX, ps.pkICY))), 0x9000
	case 4:
		if len(in) != 1 || in[0].Tag != 0x85 || chaining {
			return c.failPace(ex, "step4 malformed", 0x6A80)
		}
		oidv := EncOID(ps.sup.OID)
		tok := func(pk []byte) []byte {
			obj := EncTLV(0x7F49, append(EncTLV(0x06, oidv), EncTLV(0x86, pk)...))
			return mac8(ps.sup.Suite, ps.kmac, obj, false)
		}
		if !bytes.Equal(tok(EncodePoint(curve, ps.pkICX, ps.pkICY)), in[0].Val) {
			return c.failPace(ex, "step4 bad token", 0x6300)
		}
		resp := EncTLV(0x86, tok(ps.pkIFD))
		if ps.sup.CAM {
			if c.P.CAMKey >= len(c.P.CAKeys) {
				return c.failPace(ex, "step4 no CAM key", 0x6A88)
			}
			key := c.P.CAKeys[c.P.CAMKey]
			n := curve.Params().N
			inv := new(big.Int).ModInverse(key.D, n)
			ca := new(big.Int).Mul(inv, ps.skMap)
			ca.Mod(ca, n)
			switch c.Ov.CAMTweak {
			case "negate":
				ca.Sub(n, ca)
			case "plus-one":
				ca.Add(ca, big.NewInt(1)).Mod(ca, n)
			case "double":
				ca.Lsh(ca, 1).Mod(ca, n)
			}
			caBytes := make([]byte, (n.BitLen()+7)/8)
			ca.FillBytes(caBytes)
			blk := newBlock(ps.sup.Suite, ps.kenc)
			iv := make([]byte, 16)
			blk.Encrypt(iv, bytes.Repeat([]byte{0xFF}, 16))
			aic := cbcEnc(blk, iv, Pad2(caBytes, 16))
			resp = append(resp, EncTLV(0x8A, aic)...)
			c.Facts.CAMSent = true
		}
		c.sm = NewSM(ps.sup.Suite, ps.kenc, ps.kmac)
		c.smGen++
		c.access = true
		c.Facts.PACEDone = true
		c.Facts.PACEOid = ps.sup.OID
		c.Facts.PACEParam = ps.sup.ParamID
		c.pace = nil
		ex.Action = fmt.Sprintf("pace step4 ok cam=%v", ps.sup.CAM)
		return EncTLV(0x7C, resp), 0x9000
	}
	return c.failPace(ex, "bad state", 0x6985)
}

// EncryptCAM / DecryptCAM: A_IC = E(KS_enc, pad(CA_IC)) in CBC mode with IV = E(KS_enc, FF..FF) (9303-11 4.4.3.5).
func EncryptCAM(suite string, ksEnc, caIC []byte) []byte {
	blk := newBlock(suite, ksEnc)
	iv := make([]byte, 16)
	blk.Encrypt(iv, bytes.Repeat([]byte{0xFF}, 16))
	return cbcEnc(blk, iv, Pad2(caIC, 16))
}

func DecryptCAM(suite string, ksEnc, aic []byte) ([]byte, error) {
	blk := newBlock(suite, ksEnc)
	iv := make([]byte, 16)
	blk.Encrypt(iv, bytes.Repeat([]byte{0xFF}, 16))
	d, err := cbcDec(blk, iv, aic)
	if err != nil {
		return nil, err
	}
	return Unpad2(d)
}
