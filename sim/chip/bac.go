package chip

import (
	"bytes"
	"crypto/sha1"
)

// Overrides let a scenario pin chip randomness (edge-slice grinding, anchors with recorded transcripts).
type Overrides struct {
	RndICC    []byte
	KICC      []byte
	PaceNonce []byte
	// CAMTweak makes the chip encrypt a well-formed but wrong chip-authentication-data scalar under the session key:
	// "negate" (n - CA_IC: maps to the point with the same x-coordinate), "plus-one", "double"
	CAMTweak string
}

var _ = bytes.Equal

// BACKeys derives K_enc / K_mac from MRZ_information (9303-11 §4.3.2, §9.7.1).
func BACKeys(mrzInfo string) (kenc, kmac []byte) {
	h := sha1.Sum([]byte(mrzInfo))
	seed := h[:16]
	return KDF(seed, 1, TDES), KDF(seed, 2, TDES)
}

func (c *Chip) doGetChallenge(cmd CAPDU, ex *Exchange) ([]byte, uint16) {
	ex.Action = "get-challenge"
	if cmd.P1 != 0 || cmd.P2 != 0 || len(cmd.Data) != 0 {
		return nil, 0x6A86
	}
	if !cmd.HasLe || cmd.Le != 8 {
		return nil, 0x6700
	}
	if !c.P.BAC {
		return nil, 0x6985
	}
	if c.Ov.RndICC != nil {
		c.rndICC = bytes.Clone(c.Ov.RndICC)
	} else {
		c.rndICC = c.Rng.Bytes(8)
	}
	return bytes.Clone(c.rndICC), 0x9000
}

func (c *Chip) doExternalAuthenticate(cmd CAPDU, ex *Exchange) ([]byte, uint16) {
	ex.Action = "external-authenticate"
	if cmd.P1 != 0 || cmd.P2 != 0 {
		return nil, 0x6A86
	}
	if len(cmd.Data) != 40 || !cmd.HasLe || cmd.Le != 40 {
		return nil, 0x6700
	}
	if !c.P.BAC || c.rndICC == nil {
		return nil, 0x6985
	}
	rndICC := c.rndICC
	c.rndICC = nil // a challenge is good for one attempt
	kenc, kmac := BACKeys(c.P.MrzInfo)
	eifd, mifd := cmd.Data[:32], cmd.Data[32:]
	if !bytes.Equal(RetailMAC(kmac, Pad2(eifd, 8)), mifd) {
		ex.Action = "external-authenticate bad-mac"
		return nil, 0x6300
	}
	s, err := cbcDec(newBlock(TDES, kenc), make([]byte, 8), eifd)
	if err != nil {
		return nil, 0x6300
	}
	rndIFD, echo, kIFD := s[0:8], s[8:16], s[16:32]
	if !bytes.Equal(echo, rndICC) {
		ex.Action = "external-authenticate bad-rnd-ic"
		return nil, 0x6300
	}
	var kICC []byte
	if c.Ov.KICC != nil {
		kICC = bytes.Clone(c.Ov.KICC)
	} else {
		kICC = c.Rng.Bytes(16)
	}
	r := append(append(bytes.Clone(rndICC), rndIFD...), kICC...)
	eic := cbcEnc(newBlock(TDES, kenc), make([]byte, 8), r)
	mic := RetailMAC(kmac, Pad2(eic, 8))
	seed := make([]byte, 16)
	for i := range seed {
		seed[i] = kIFD[i] ^ kICC[i]
	}
	c.sm = NewSM(TDES, KDF(seed, 1, TDES), KDF(seed, 2, TDES))
	c.smGen++
	copy(c.sm.SSC[0:4], rndICC[4:8])
	copy(c.sm.SSC[4:8], rndIFD[4:8])
	c.access = true
	c.Facts.BACDone = true
	ex.Action = "external-authenticate ok"
	return append(eic, mic...), 0x9000
}
