package chip

import (
	"bytes"
	"crypto/elliptic"
	"fmt"
	"math/big"

	"verif/sim/core"
)

const (
	FidCardAccess   = 0x011C
	FidCardSecurity = 0x011D
	FidDir          = 0x2F00
	FidCOM          = 0x011E
	FidSOD          = 0x011D
)

var LDS1AID = []byte{0xA0, 0x00, 0x00, 0x02, 0x47, 0x10, 0x01}

func FidDG(n int) uint16 { return uint16(0x0100 + n) }

// PaceSupport is one PACE protocol the chip offers.
type PaceSupport struct {
	OID     []int  // protocol OID arcs
	Suite   string // TDES, AES128...
	CAM     bool
	ParamID int
}

// CAKey is a static chip-authentication key pair.
type CAKey struct {
	KeyID *int64
	Curve elliptic.Curve
	D     *big.Int
	X, Y  *big.Int
}

// CAProto is one CA protocol (ChipAuthenticationInfo) the chip supports.
type CAProto struct {
	OID   []int
	Suite string
	KeyID *int64
}

// AAKey is the active-authentication key.
type AAKey struct {
	// RSA
	N, D *big.Int
	// EC
	Curve elliptic.Curve
	ECD   *big.Int
	// signature options
	Hash     string // RSA: SHA1 (trailer BC) or SHA224/256/384/512 (trailer xxCC); ECDSA: by key size unless forced
	M1Policy string // random | zero | ff | leadzero
	DER      bool   // ECDSA signature in DER instead of plain
	MinSig   bool   // RSA: emit min(s, n-s)
}

// Personalisation is the durable state of a chip.
type Personalisation struct {
	MrzInfo string // MRZ_information (doc no + cd + dob + cd + doe + cd)
	CAN     string
	BAC     bool
	MF      map[uint16][]byte
	LDS     map[uint16][]byte
	EACOnly map[uint16]bool // files that need terminal authentication (always 6982)
	PACE    []PaceSupport
	CAKeys  []CAKey
	CAProto []CAProto // empty + CAKeys present = legacy chip: MSE:Set KAT with 3DES
	CAMKey  int       // index into CAKeys used for PACE-CAM
	AA      *AAKey
	// FirstServe: hostile chip only - content served for a file of the master file until it is selected a second
	// time (a chip whose answers change between reads of the same file).
	FirstServe map[uint16][]byte
}

// Behaviour knobs: legitimate variation between real chips.
type Behaviour struct {
	MaxResp          int    // max READ BINARY data bytes per response (0 = no cap)
	ShortMode        string // "", "one", "alt", "rand", "fixed", "first"
	ShortFixed       int
	LeCap            int  // READ BINARY with Le above this is answered 6700 (protected under SM); 0 = none
	ExtLen           bool // extended-length APDUs supported; otherwise plain 6700, SM state untouched
	EOFWarning       bool // 6282 instead of 9000 when fewer bytes than Le are available
	NoOddINS         bool `json:",omitempty"` // READ BINARY with odd INS (B1) not supported: 6D00 (files beyond 32 KiB cannot be read in short chunks)
	MFImplicit       bool // SELECT MF without data supported
	MFExplicit       bool // SELECT MF with 3F00 supported
	GlobalFid        bool // FIDs not found in the current DF are also searched in the MF
	ACAtRead         bool // access conditions enforced at READ BINARY rather than at SELECT
	NoSMErrorAbort   bool // keep session after an SM error (non-conforming; only for targeted scenarios)
	GrindSharedZeros int  // edge-slice grinding: make ECDH shared x start with this many zero octets (PACE KA / CA not possible)
	GrindPubZeros    int  // make chip ephemeral public x start with zero octets
	SSCAboutToWrap   bool // BAC: choose RND.IC so that the SSC is close to wrap (needs terminal half too; see engine)
}

func DefaultBehaviour() Behaviour {
	return Behaviour{ExtLen: true, MFImplicit: true, MFExplicit: true}
}

// Exchange is the chip's own record of one command/response pair.
type Exchange struct {
	N          int
	CmdRaw     []byte
	Outer      CAPDU
	OuterErr   string // strict parser rejection (ISO 7816-4 SHALL)
	ViaSM      bool
	Plain      *CAPDU // command after SM unwrap (or the outer one)
	Action     string
	PlainData  []byte // response data before protection
	PlainSW    uint16
	RespRaw    []byte
	RespSM     bool
	SMError    string
	SSCAfter   []byte
	SessionGen int // which SM session (generation counter) handled it
}

// Facts: what the chip considers completed (oracle for "did the chip really complete that step").
type Facts struct {
	BACDone            bool
	PACEDone           bool
	PACEOid            []int
	PACEParam          int
	CAMSent            bool
	CASwitched         bool // CA computed and keys switched
	CAConfirmed        bool // first command under the CA keys authenticated
	AAChallenges       [][]byte
	PlainWhileSM       int // unprotected commands received while a session existed
	PowerCycles        int
	SMErrors           int
	ReadBinaryCmds     int
	FilesServed        map[string]bool
	StrictRejects      []string
	SharedSecretsZeros int // number of ECDH secrets with leading zero octet computed by the chip
}

// Chip is a simulated eMRTD.
type Chip struct {
	P   *Personalisation
	B   Behaviour
	Rng *core.Rng
	Ov  Overrides
	// AAMutate, when set, lets a scenario turn the chip into an adversary on its own INTERNAL AUTHENTICATE answer.
	AAMutate func(sig, rnd []byte) []byte
	// AAFailFirst: number of initial INTERNAL AUTHENTICATE commands answered with AAFailSW instead of a signature.
	AAFailFirst int
	AAFailSW    uint16
	// CANoSwitch: an impostor that cannot derive the new keys keeps answering under the old session.
	CANoSwitch bool

	// volatile
	inLDS    bool
	curEF    uint16
	shortDone bool
	selCount map[string]int
	curInLDS bool
	hasEF    bool
	access   bool
	sm       *SM
	smGen    int
	rndICC   []byte
	pace     *paceState
	caPend   *caPending
	caAT     *CAProto
	caATKey  *int64
	caJustSw bool

	Log   []Exchange
	Facts Facts
}

func New(p *Personalisation, b Behaviour, rng *core.Rng) *Chip {
	c := &Chip{P: p, B: b, Rng: rng}
	c.Facts.FilesServed = map[string]bool{}
	return c
}

// PowerCycle models NFC field loss: volatile state is lost, durable files and keys survive.
func (c *Chip) PowerCycle() {
	c.inLDS, c.hasEF, c.access = false, false, false
	c.sm, c.rndICC, c.pace, c.caPend, c.caAT, c.caATKey = nil, nil, nil, nil, nil, nil
	c.caJustSw = false
	c.Facts.PowerCycles++
}

// SMState exposes the chip's session for lockstep oracles (nil when none).
func (c *Chip) SMState() *SM { return c.sm }

func sw(v uint16) []byte { return []byte{byte(v >> 8), byte(v)} }

// Transceive processes one raw command APDU and returns the raw response.
func (c *Chip) Transceive(raw []byte) []byte {
	ex := Exchange{N: len(c.Log), CmdRaw: bytes.Clone(raw)}
	resp := c.process(raw, &ex)
	ex.RespRaw = bytes.Clone(resp)
	if c.sm != nil {
		ex.SSCAfter = bytes.Clone(c.sm.SSC)
	}
	ex.SessionGen = c.smGen
	c.Log = append(c.Log, ex)
	return resp
}

func (c *Chip) abortSession() {
	c.sm = nil
	c.access = false
	c.caPend = nil
	c.caJustSw = false
}

func (c *Chip) process(raw []byte, ex *Exchange) []byte {
	outer, err := ParseCAPDU(raw)
	ex.Outer = outer
	if err != nil {
		ex.OuterErr = err.Error()
		ex.Action = "reject-malformed"
		c.Facts.StrictRejects = append(c.Facts.StrictRejects, "ISO7816-4 5.1: "+err.Error())
		ex.PlainSW = 0x6700
		return sw(0x6700) // transport level, SM state untouched
	}
	if outer.Extended && !c.B.ExtLen {
		ex.Action = "reject-extended"
		ex.PlainSW = 0x6700
		return sw(0x6700) // transport level, SM state untouched
	}
	if outer.CLA&^0x1C != 0 || outer.CLA&0x0C == 0x04 || outer.CLA&0x0C == 0x08 {
		ex.Action = "reject-cla"
		ex.PlainSW = 0x6E00
		return sw(0x6E00)
	}
	if outer.CLA&0x0C == 0x0C {
		ex.ViaSM = true
		if c.sm == nil {
			ex.Action = "sm-without-session"
			ex.PlainSW = 0x6982
			return sw(0x6982)
		}
		plain, smErr := c.sm.Unwrap(outer)
		if smErr != nil {
			ex.SMError = smErr.Error()
			ex.Action = "sm-error"
			c.Facts.SMErrors++
			code := uint16(0x6988)
			if smErr == errSMMissing {
				code = 0x6987
			}
			if !c.B.NoSMErrorAbort {
				c.abortSession()
			}
			ex.PlainSW = code
			return sw(code)
		}
		if c.caJustSw {
			// first command authenticated under the CA keys
			c.Facts.CAConfirmed = true
			c.caJustSw = false
		}
		ex.Plain = &plain
		session := c.sm
		data, status := c.dispatch(plain, true, ex)
		ex.PlainData, ex.PlainSW = bytes.Clone(data), status
		out := session.Wrap(plain.INS, data, status)
		ex.RespSM = true
		if c.caPend != nil && c.caPend.ready && c.CANoSwitch {
			c.caPend = nil
		}
		if c.caPend != nil && c.caPend.ready {
			// CA: new keys take effect after the response under the old session
			c.sm = c.caPend.sm
			c.smGen++
			c.caPend = nil
			c.caJustSw = true
			c.Facts.CASwitched = true
		}
		return out
	}
	// plain command
	if c.sm != nil {
		c.Facts.PlainWhileSM++
		c.abortSession()
	}
	ex.Plain = &outer
	data, status := c.dispatch(outer, false, ex)
	ex.PlainData, ex.PlainSW = bytes.Clone(data), status
	return append(bytes.Clone(data), sw(status)...)
}

func (c *Chip) dispatch(cmd CAPDU, viaSM bool, ex *Exchange) ([]byte, uint16) {
	chaining := cmd.CLA&0x10 != 0
	if chaining && cmd.INS != 0x86 {
		ex.Action = "chaining-not-supported"
		return nil, 0x6884
	}
	switch cmd.INS {
	case 0xA4:
		return c.doSelect(cmd, viaSM, ex)
	case 0xB0, 0xB1:
		return c.doReadBinary(cmd, viaSM, ex)
	case 0x84:
		return c.doGetChallenge(cmd, ex)
	case 0x82:
		return c.doExternalAuthenticate(cmd, ex)
	case 0x22:
		return c.doMSE(cmd, viaSM, ex)
	case 0x86:
		return c.doGeneralAuthenticate(cmd, viaSM, ex)
	case 0x88:
		return c.doInternalAuthenticate(cmd, viaSM, ex)
	}
	ex.Action = "ins-not-supported"
	return nil, 0x6D00
}

func (c *Chip) lookup(fid uint16) (data []byte, inLDS bool, ok bool) {
	if c.inLDS {
		if d, ok := c.P.LDS[fid]; ok {
			return d, true, true
		}
		if c.B.GlobalFid {
			if d, ok := c.P.MF[fid]; ok {
				return d, false, true
			}
		}
		return nil, false, false
	}
	if d, ok := c.P.MF[fid]; ok {
		return d, false, true
	}
	return nil, false, false
}

// accessOK: CardAccess and EF.DIR are free; EF.CardSecurity and all LDS1 files need an
// authenticated session and a protected command.
func (c *Chip) accessOK(fid uint16, inLDS bool, viaSM bool) bool {
	if !inLDS && (fid == FidCardAccess || fid == FidDir) {
		return true
	}
	if inLDS && c.P.EACOnly[fid] {
		return false
	}
	return c.access && viaSM
}

func (c *Chip) doSelect(cmd CAPDU, viaSM bool, ex *Exchange) ([]byte, uint16) {
	ex.Action = fmt.Sprintf("select p1=%02X", cmd.P1)
	if cmd.P2 != 0x0C && cmd.P2 != 0x00 {
		return nil, 0x6A86
	}
	switch cmd.P1 {
	case 0x00:
		if len(cmd.Data) == 0 {
			if !c.B.MFImplicit {
				return nil, 0x6A86
			}
		} else if bytes.Equal(cmd.Data, []byte{0x3F, 0x00}) {
			if !c.B.MFExplicit {
				return nil, 0x6A82
			}
		} else {
			return nil, 0x6A82
		}
		c.inLDS, c.hasEF = false, false
		ex.Action = "select-mf"
		return nil, 0x9000
	case 0x04:
		if bytes.Equal(cmd.Data, LDS1AID) {
			c.inLDS, c.hasEF = true, false
			ex.Action = "select-lds1"
			return nil, 0x9000
		}
		return nil, 0x6A82
	case 0x02:
		if len(cmd.Data) != 2 {
			return nil, 0x6700
		}
		fid := uint16(cmd.Data[0])<<8 | uint16(cmd.Data[1])
		_, inLDS, ok := c.lookup(fid)
		if !ok {
			ex.Action = fmt.Sprintf("select-ef %04X not-found", fid)
			return nil, 0x6A82
		}
		if !c.B.ACAtRead && !c.accessOK(fid, inLDS, viaSM) {
			ex.Action = fmt.Sprintf("select-ef %04X denied", fid)
			return nil, 0x6982
		}
		c.curEF, c.curInLDS, c.hasEF = fid, inLDS, true
		if c.selCount == nil {
			c.selCount = map[string]int{}
		}
		c.selCount[fmt.Sprintf("%04X/%v", fid, inLDS)]++
		ex.Action = fmt.Sprintf("select-ef %04X", fid)
		return nil, 0x9000
	}
	return nil, 0x6A86
}

func sfiToFid(sfi byte, inLDS bool) (uint16, bool) {
	if inLDS {
		switch {
		case sfi >= 1 && sfi <= 16:
			return 0x0100 + uint16(sfi), true
		case sfi == 0x1E:
			return FidCOM, true
		case sfi == 0x1D:
			return FidSOD, true
		}
		return 0, false
	}
	switch sfi {
	case 0x1C:
		return FidCardAccess, true
	case 0x1D:
		return FidCardSecurity, true
	case 0x1E:
		return FidDir, true
	}
	return 0, false
}

func (c *Chip) doReadBinary(cmd CAPDU, viaSM bool, ex *Exchange) ([]byte, uint16) {
	c.Facts.ReadBinaryCmds++
	offset := 0
	odd := cmd.INS == 0xB1
	if odd && c.B.NoOddINS {
		ex.Action = "read-binary-odd not-supported"
		return nil, 0x6D00
	}
	if odd {
		ts, err := ParseTLVs(cmd.Data)
		if err != nil || len(ts) != 1 || ts[0].Tag != 0x54 || len(ts[0].Val) == 0 || len(ts[0].Val) > 3 {
			ex.Action = "read-binary-odd bad-do54"
			return nil, 0x6A80
		}
		for _, b := range ts[0].Val {
			offset = offset<<8 | int(b)
		}
		if cmd.P1 != 0 || cmd.P2 != 0 {
			// P1-P2 = 0000 means current EF; SFI form not modelled for odd INS
			return nil, 0x6A86
		}
	} else {
		if len(cmd.Data) != 0 {
			ex.Action = "read-binary with-data"
			return nil, 0x6700
		}
		if cmd.P1&0x80 != 0 {
			// 9303-10 3.6.3.2 / ISO 7816-4: b8=1 => b7,b6=0, b5..b1 = SFI, P2 = offset
			if cmd.P1&0x60 != 0 {
				return nil, 0x6A86
			}
			fid, ok := sfiToFid(cmd.P1&0x1F, c.inLDS)
			if cmd.P1&0x1F == 0 {
				// ISO/IEC 7816-4 5.3.1.1: short EF identifier 00000 references the current EF
				if !c.hasEF {
					return nil, 0x6986
				}
				fid, ok = c.curEF, true
			}
			if !ok {
				ex.Action = "read-binary sfi unknown"
				return nil, 0x6A82
			}
			if _, _, ok := c.lookup(fid); !ok {
				ex.Action = fmt.Sprintf("read-binary sfi %04X not-found", fid)
				return nil, 0x6A82
			}
			c.curEF, c.curInLDS, c.hasEF = fid, c.inLDS, true
			offset = int(cmd.P2)
			ex.Action = fmt.Sprintf("read-binary sfi->%04X", fid)
		} else {
			offset = int(cmd.P1)<<8 | int(cmd.P2)
		}
	}
	if !c.hasEF {
		ex.Action = "read-binary no-current-ef"
		return nil, 0x6986
	}
	if !c.accessOK(c.curEF, c.curInLDS, viaSM) {
		ex.Action = "read-binary denied"
		return nil, 0x6982
	}
	if !cmd.HasLe {
		ex.Action = "read-binary no-le"
		return nil, 0x6700
	}
	var file []byte
	if c.curInLDS {
		file = c.P.LDS[c.curEF]
	} else {
		file = c.P.MF[c.curEF]
		if alt, ok := c.P.FirstServe[c.curEF]; ok && c.selCount[fmt.Sprintf("%04X/%v", c.curEF, false)] <= 1 {
			file = alt
		}
	}
	if offset >= len(file) {
		ex.Action = "read-binary offset-beyond-eof"
		return nil, 0x6B00
	}
	if c.B.LeCap > 0 && cmd.Le > c.B.LeCap {
		ex.Action = "read-binary le-above-cap"
		return nil, 0x6700
	}
	avail := len(file) - offset
	n := min(cmd.Le, avail)
	if odd {
		// Le covers the whole DO'53': return as many data bytes as fit
		for n > 0 && len(EncLen(n))+1+n > cmd.Le {
			n--
		}
		if n == 0 {
			ex.Action = "read-binary-odd le-too-small"
			return nil, 0x6700
		}
	}
	if c.B.MaxResp > 0 {
		n = min(n, c.B.MaxResp)
	}
	switch c.B.ShortMode {
	case "one":
		n = 1
	case "alt":
		if c.Facts.ReadBinaryCmds%2 == 0 && n > 1 {
			n = (n + 1) / 2
		}
	case "rand":
		n = c.Rng.Range(1, n)
	case "fixed":
		if c.B.ShortFixed > 0 {
			n = min(n, c.B.ShortFixed)
		}
	case "first":
		// only the first read after the header read (offset >= 4) is answered short: shifts the whole chunk grid
		if c.B.ShortFixed > 0 && offset >= 4 && !c.shortDone {
			n = min(n, c.B.ShortFixed)
			c.shortDone = true
		}
	}
	status := uint16(0x9000)
	beyondEOF := cmd.Le > avail
	if odd {
		beyondEOF = cmd.Le > 1+len(EncLen(avail))+avail // Le covers the DO'53' header too
	}
	if beyondEOF && c.B.EOFWarning {
		status = 0x6282
	}
	ex.Action = fmt.Sprintf("read-binary %04X off=%d le=%d n=%d", c.curEF, offset, cmd.Le, n)
	key := fmt.Sprintf("%04X/%v", c.curEF, c.curInLDS)
	c.Facts.FilesServed[key] = true
	out := bytes.Clone(file[offset : offset+n])
	if odd {
		out = EncTLV(0x53, out)
	}
	return out, status
}

// InstallSession puts the chip directly into an authenticated state with the given session
// (scenario set-up for engines that do not exercise an access-control protocol).
func (c *Chip) InstallSession(s *SM) {
	c.sm = s
	c.smGen++
	c.access = true
}

// SelectLDS puts the chip into the LDS1 application (scenario set-up).
func (c *Chip) SelectLDS() { c.inLDS, c.hasEF = true, false }
