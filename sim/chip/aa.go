package chip

import (
	"bytes"
	"crypto/elliptic"
	"errors"
	"math/big"

	"verif/sim/core"
)

func ecdsaHashForCurve(curve elliptic.Curve) string {
	nb := curve.Params().N.BitLen()
	switch {
	case nb >= 512:
		return "SHA512"
	case nb >= 384:
		return "SHA384"
	case nb >= 256:
		return "SHA256"
	}
	return "SHA224"
}

// ECDSASign: own implementation (TR-03111 §4.2.1.1), k from the supplied rng.
func ECDSASign(curve elliptic.Curve, d *big.Int, digest []byte, rng *core.Rng) (r, s *big.Int) {
	n := curve.Params().N
	e := new(big.Int).SetBytes(digest)
	if excess := len(digest)*8 - n.BitLen(); excess > 0 {
		e.Rsh(e, uint(excess))
	}
	for {
		k := new(big.Int).SetBytes(rng.Bytes((n.BitLen() + 7) / 8))
		k.Mod(k, n)
		if k.Sign() == 0 {
			continue
		}
		x, _ := curve.ScalarBaseMult(k.Bytes())
		r = new(big.Int).Mod(x, n)
		if r.Sign() == 0 {
			continue
		}
		kinv := new(big.Int).ModInverse(k, n)
		s = new(big.Int).Mul(r, d)
		s.Add(s, e)
		s.Mul(s, kinv)
		s.Mod(s, n)
		if s.Sign() == 0 {
			continue
		}
		return r, s
	}
}

// ECDSAVerify: own implementation, used by oracles to decide whether mutated bytes are still a valid signature.
func ECDSAVerify(curve elliptic.Curve, qx, qy *big.Int, digest []byte, r, s *big.Int) bool {
	n := curve.Params().N
	if r.Sign() <= 0 || s.Sign() <= 0 || r.Cmp(n) >= 0 || s.Cmp(n) >= 0 {
		return false
	}
	e := new(big.Int).SetBytes(digest)
	if excess := len(digest)*8 - n.BitLen(); excess > 0 {
		e.Rsh(e, uint(excess))
	}
	w := new(big.Int).ModInverse(s, n)
	u1 := new(big.Int).Mul(e, w)
	u1.Mod(u1, n)
	u2 := new(big.Int).Mul(r, w)
	u2.Mod(u2, n)
	var x, y *big.Int
	if u1.Sign() == 0 {
		x, y = curve.ScalarMult(qx, qy, u2.Bytes())
	} else {
		x1, y1 := curve.ScalarBaseMult(u1.Bytes())
		x2, y2 := curve.ScalarMult(qx, qy, u2.Bytes())
		if x1.Cmp(x2) == 0 && y1.Cmp(y2) == 0 {
			x, y = curve.Double(x1, y1)
		} else {
			x, y = curve.Add(x1, y1, x2, y2)
		}
	}
	if x.Sign() == 0 && y.Sign() == 0 {
		return false
	}
	x.Mod(x, n)
	return x.Cmp(r) == 0
}

func rsaTrailer(hash string) []byte {
	switch hash {
	case "SHA1":
		return []byte{0xBC}
	case "SHA224":
		return []byte{0x38, 0xCC}
	case "SHA256":
		return []byte{0x34, 0xCC}
	case "SHA384":
		return []byte{0x36, 0xCC}
	case "SHA512":
		return []byte{0x35, 0xCC}
	}
	panic("trailer")
}

// AASignRSA produces an ISO/IEC 9796-2 scheme 1 signature with partial message recovery
// (9303-11 §6.1.2.2): F = 6A || M1 || H(M1 || RND.IFD) || T, sigma = F^d mod n.
// Only moduli whose bit length is a multiple of 8 are handled (see DESIGN §6.7 scope note).
func AASignRSA(k *AAKey, rnd []byte, rng *core.Rng) (sig []byte, m1 []byte) {
	klen := (k.N.BitLen() + 7) / 8
	// the recoverable message starts with the octet 6A (top bit 0), so the longest octet string that stays below the
	// modulus has floor(k/8) octets; for k divisible by 8 that is the modulus length
	flen := k.N.BitLen() / 8
	tr := rsaTrailer(k.Hash)
	hlen := len(Hash(k.Hash, nil))
	m1len := flen - 1 - hlen - len(tr)
	m1 = make([]byte, m1len)
	switch k.M1Policy {
	case "zero":
	case "ff":
		for i := range m1 {
			m1[i] = 0xFF
		}
	case "leadzero":
		copy(m1, rng.Bytes(m1len))
		m1[0], m1[1] = 0, 0
	default:
		copy(m1, rng.Bytes(m1len))
	}
	d := Hash(k.Hash, append(bytes.Clone(m1), rnd...))
	f := append([]byte{0x6A}, m1...)
	f = append(f, d...)
	f = append(f, tr...)
	s := new(big.Int).Exp(new(big.Int).SetBytes(f), k.D, k.N)
	if k.MinSig {
		alt := new(big.Int).Sub(k.N, s)
		if alt.Cmp(s) < 0 {
			s = alt
		}
	}
	sig = make([]byte, klen)
	s.FillBytes(sig)
	return sig, m1
}

func (c *Chip) doInternalAuthenticate(cmd CAPDU, viaSM bool, ex *Exchange) ([]byte, uint16) {
	ex.Action = "internal-authenticate"
	if cmd.P1 != 0 || cmd.P2 != 0 {
		return nil, 0x6A86
	}
	if c.P.AA == nil {
		return nil, 0x6D00
	}
	if !(c.access && viaSM) {
		return nil, 0x6982
	}
	if len(cmd.Data) != 8 || !cmd.HasLe {
		return nil, 0x6700
	}
	if c.AAFailFirst > 0 {
		// a chip whose first attempts fail (busy, internal error): the status travels protected, the session stays usable
		c.AAFailFirst--
		c.Facts.AAChallenges = append(c.Facts.AAChallenges, bytes.Clone(cmd.Data))
		ex.Action = "internal-authenticate transient-error"
		return nil, c.AAFailSW
	}
	k := c.P.AA
	var out []byte
	if k.N != nil {
		out, _ = AASignRSA(k, cmd.Data, c.Rng)
	} else {
		h := k.Hash
		if h == "" {
			h = ecdsaHashForCurve(k.Curve)
		}
		r, s := ECDSASign(k.Curve, k.ECD, Hash(h, cmd.Data), c.Rng)
		if k.DER {
			out = derSig(r, s)
		} else {
			l := (k.Curve.Params().N.BitLen() + 7) / 8
			out = make([]byte, 2*l)
			r.FillBytes(out[:l])
			s.FillBytes(out[l:])
		}
	}
	if c.AAMutate != nil {
		out = c.AAMutate(out, cmd.Data)
	}
	if len(out) > cmd.Le {
		ex.Action = "internal-authenticate le-too-small"
		return nil, 0x6700
	}
	c.Facts.AAChallenges = append(c.Facts.AAChallenges, bytes.Clone(cmd.Data))
	ex.Action = "internal-authenticate ok"
	return out, 0x9000
}

func derInt(v *big.Int) []byte {
	b := v.Bytes()
	if len(b) == 0 {
		b = []byte{0}
	}
	if b[0]&0x80 != 0 {
		b = append([]byte{0}, b...)
	}
	return EncTLV(0x02, b)
}

func derSig(r, s *big.Int) []byte {
	return EncTLV(0x30, append(derInt(r), derInt(s)...))
}

// AAVerifyRSA is the reference verifier for ISO/IEC 9796-2 scheme 1 signatures as used by AA
// (moduli whose bit length is a multiple of 8): used by oracles to decide whether arbitrary
// bytes are a valid signature by the key over exactly rnd.
func AAVerifyRSA(n *big.Int, e int, sig, rnd []byte) bool {
	klen := (n.BitLen() + 7) / 8
	if len(sig) == 0 || len(sig) > klen {
		return false
	}
	s := new(big.Int).SetBytes(sig)
	if s.Cmp(n) >= 0 {
		return false
	}
	f := make([]byte, klen)
	new(big.Int).Exp(s, big.NewInt(int64(e)), n).FillBytes(f)
	for len(f) > 1 && f[0] == 0 { // integer-to-octet-string: leading zero octets carry no information
		f = f[1:]
	}
	check := func(f []byte) bool {
		if f[0] != 0x6A {
			return false
		}
		var hash string
		tl := 1
		switch f[len(f)-1] {
		case 0xBC:
			hash = "SHA1"
		case 0xCC:
			tl = 2
			switch f[len(f)-2] {
			case 0x38:
				hash = "SHA224"
			case 0x34:
				hash = "SHA256"
			case 0x36:
				hash = "SHA384"
			case 0x35:
				hash = "SHA512"
			default:
				return false
			}
		default:
			return false
		}
		hl := len(Hash(hash, nil))
		if len(f) < 1+hl+tl {
			return false
		}
		m1 := f[1 : len(f)-hl-tl]
		d := f[len(f)-hl-tl : len(f)-tl]
		return bytes.Equal(Hash(hash, append(bytes.Clone(m1), rnd...)), d)
	}
	return check(f)
}

// AAVerifyECDSA: plain r||s or DER, hash by key size, message = rnd.
func AAVerifyECDSA(curve elliptic.Curve, qx, qy *big.Int, sig, rnd []byte) bool {
	digest := Hash(ecdsaHashForCurve(curve), rnd)
	if len(sig) > 0 && len(sig)%2 == 0 {
		h := len(sig) / 2
		if ECDSAVerify(curve, qx, qy, digest, new(big.Int).SetBytes(sig[:h]), new(big.Int).SetBytes(sig[h:])) {
			return true
		}
	}
	if len(sig) > 0 && sig[0] == 0x30 {
		// trailing bytes after the DER signature do not change (r, s): only the leading SEQUENCE counts
		ts, err := firstTLV(sig)
		if err == nil && len(ts) >= 1 && ts[0].Tag == 0x30 {
			in, err := ParseTLVs(ts[0].Val)
			if err == nil && len(in) == 2 && in[0].Tag == 2 && in[1].Tag == 2 {
				r, s := new(big.Int).SetBytes(in[0].Val), new(big.Int).SetBytes(in[1].Val)
				if len(in[0].Val) > 0 && in[0].Val[0]&0x80 == 0 && len(in[1].Val) > 0 && in[1].Val[0]&0x80 == 0 {
					return ECDSAVerify(curve, qx, qy, digest, r, s)
				}
			}
		}
	}
	return false
}

func firstTLV(b []byte) ([]TLV, error) {
	for n := 2; n <= len(b); n++ {
		if ts, err := ParseTLVs(b[:n]); err == nil && len(ts) == 1 {
			return ts, nil
		}
	}
	return nil, errors.New("no leading TLV")
}
