package chip

import (
	"errors"
	"fmt"
)

// CAPDU is a command parsed strictly per ISO/IEC 7816-4 §5.1 (cases 1, 2S, 3S, 4S, 2E, 3E, 4E).
type CAPDU struct {
	CLA, INS, P1, P2 byte
	Data             []byte
	Le               int // 0 = absent; 256 / 65536 for the zero encodings
	HasLe            bool
	Extended         bool
	Case             string
}

func (c CAPDU) String() string {
	return fmt.Sprintf("%s %02X %02X %02X %02X Lc=%d Le=%d", c.Case, c.CLA, c.INS, c.P1, c.P2, len(c.Data), c.Le)
}

// ParseCAPDU is strict: any byte string that is not exactly one of the seven ISO cases is an error.
func ParseCAPDU(b []byte) (CAPDU, error) {
	var c CAPDU
	if len(b) < 4 {
		return c, errors.New("apdu shorter than header")
	}
	c.CLA, c.INS, c.P1, c.P2 = b[0], b[1], b[2], b[3]
	body := b[4:]
	switch {
	case len(body) == 0:
		c.Case = "1"
		return c, nil
	case len(body) == 1:
		c.Case = "2S"
		c.HasLe = true
		c.Le = int(body[0])
		if c.Le == 0 {
			c.Le = 256
		}
		return c, nil
	}
	if body[0] != 0 {
		lc := int(body[0])
		switch len(body) {
		case 1 + lc:
			c.Case = "3S"
			c.Data = body[1:]
			return c, nil
		case 1 + lc + 1:
			c.Case = "4S"
			c.Data = body[1 : 1+lc]
			c.HasLe = true
			c.Le = int(body[1+lc])
			if c.Le == 0 {
				c.Le = 256
			}
			return c, nil
		}
		return c, fmt.Errorf("short APDU length mismatch (Lc=%d, body=%d)", lc, len(body))
	}
	// extended
	c.Extended = true
	if len(body) == 3 {
		c.Case = "2E"
		c.HasLe = true
		c.Le = int(body[1])<<8 | int(body[2])
		if c.Le == 0 {
			c.Le = 65536
		}
		return c, nil
	}
	if len(body) < 3 {
		return c, errors.New("malformed extended APDU")
	}
	lc := int(body[1])<<8 | int(body[2])
	if lc == 0 {
		return c, errors.New("extended Lc = 0")
	}
	switch len(body) {
	case 3 + lc:
		c.Case = "3E"
		c.Data = body[3:]
		return c, nil
	case 3 + lc + 2:
		c.Case = "4E"
		c.Data = body[3 : 3+lc]
		c.HasLe = true
		c.Le = int(body[3+lc])<<8 | int(body[3+lc+1])
		if c.Le == 0 {
			c.Le = 65536
		}
		return c, nil
	}
	return c, fmt.Errorf("extended APDU length mismatch (Lc=%d, body=%d)", lc, len(body))
}

// ---- minimal BER-TLV (definite lengths, tags of 1-2 octets) for command/response data objects

type TLV struct {
	Tag int
	Val []byte
	Raw []byte // complete encoding as received
}

func ParseTLVs(b []byte) ([]TLV, error) {
	var out []TLV
	for len(b) > 0 {
		start := b
		if len(b) < 2 {
			return nil, errors.New("tlv: truncated")
		}
		tag := int(b[0])
		b = b[1:]
		if tag&0x1F == 0x1F {
			if len(b) < 1 {
				return nil, errors.New("tlv: truncated tag")
			}
			if b[0]&0x80 != 0 {
				return nil, errors.New("tlv: tag too long")
			}
			tag = tag<<8 | int(b[0])
			b = b[1:]
		}
		if len(b) < 1 {
			return nil, errors.New("tlv: truncated length")
		}
		l := int(b[0])
		b = b[1:]
		if l&0x80 != 0 {
			n := l & 0x7F
			if n == 0 || n > 3 || len(b) < n {
				return nil, errors.New("tlv: bad length")
			}
			l = 0
			for i := 0; i < n; i++ {
				l = l<<8 | int(b[i])
			}
			b = b[n:]
		}
		if len(b) < l {
			return nil, errors.New("tlv: value truncated")
		}
		out = append(out, TLV{Tag: tag, Val: b[:l], Raw: start[:len(start)-len(b)+l]})
		b = b[l:]
	}
	return out, nil
}

func EncLen(n int) []byte {
	switch {
	case n < 0x80:
		return []byte{byte(n)}
	case n < 0x100:
		return []byte{0x81, byte(n)}
	case n < 0x10000:
		return []byte{0x82, byte(n >> 8), byte(n)}
	}
	return []byte{0x83, byte(n >> 16), byte(n >> 8), byte(n)}
}

func EncTLV(tag int, val []byte) []byte {
	var out []byte
	if tag > 0xFF {
		out = append(out, byte(tag>>8), byte(tag))
	} else {
		out = append(out, byte(tag))
	}
	out = append(out, EncLen(len(val))...)
	return append(out, val...)
}

func findTLV(ts []TLV, tag int) *TLV {
	for i := range ts {
		if ts[i].Tag == tag {
			return &ts[i]
		}
	}
	return nil
}
