// Package chip is the reference eMRTD chip ("SimChip"): an executable model of an ICAO 9303
// LDS1 chip written from the specifications (ICAO 9303-10/-11, TR-03110-3, TR-03111,
// ISO/IEC 7816-4, 9797-1, 9796-2, SP 800-38B), independent of gmrtd's encoders.
// Trusted base shared with gmrtd: crypto/des, crypto/aes, crypto/sha*, math/big,
// crypto/elliptic point arithmetic and the brainpool curve parameters.
package chip

import (
	"crypto/aes"
	"crypto/cipher"
	"crypto/des"
	"crypto/elliptic"
	"crypto/sha1"
	"crypto/sha256"
	"crypto/sha512"
	"encoding/binary"
	"errors"
	"fmt"
	"hash"
	"math/big"

	"github.com/osanderson/brainpool"
)

// Cipher suites.
const (
	TDES   = "3DES"
	AES128 = "AES128"
	AES192 = "AES192"
	AES256 = "AES256"
)

func isAES(s string) bool { return s != TDES }

func blockSize(s string) int {
	if s == TDES {
		return 8
	}
	return 16
}

// KDF per 9303-11 §9.7.1: H(K || c), c 32-bit big endian.
func KDF(k []byte, c uint32, suite string) []byte {
	in := append(append([]byte{}, k...), 0, 0, 0, 0)
	binary.BigEndian.PutUint32(in[len(k):], c)
	switch suite {
	case TDES:
		h := sha1.Sum(in)
		out := append([]byte{}, h[:16]...)
		for i := range out { // odd parity
			b := out[i] & 0xFE
			ones := 0
			for j := 1; j < 8; j++ {
				if b&(1<<uint(j)) != 0 {
					ones++
				}
			}
			if ones%2 == 0 {
				b |= 1
			}
			out[i] = b
		}
		return out
	case AES128:
		h := sha1.Sum(in)
		return append([]byte{}, h[:16]...)
	case AES192:
		h := sha256.Sum256(in)
		return append([]byte{}, h[:24]...)
	case AES256:
		h := sha256.Sum256(in)
		return append([]byte{}, h[:]...)
	}
	panic("KDF: bad suite " + suite)
}

func newBlock(suite string, key []byte) cipher.Block {
	if suite == TDES {
		if len(key) != 16 {
			panic("3DES key must be 16 bytes")
		}
		k := append(append([]byte{}, key...), key[:8]...)
		b, err := des.NewTripleDESCipher(k)
		if err != nil {
			panic(err)
		}
		return b
	}
	b, err := aes.NewCipher(key)
	if err != nil {
		panic(err)
	}
	return b
}

func cbcEnc(b cipher.Block, iv, data []byte) []byte {
	if len(data)%b.BlockSize() != 0 {
		panic("cbcEnc: unaligned")
	}
	out := make([]byte, len(data))
	prev := append([]byte{}, iv...)
	bs := b.BlockSize()
	for i := 0; i < len(data); i += bs {
		x := make([]byte, bs)
		for j := 0; j < bs; j++ {
			x[j] = data[i+j] ^ prev[j]
		}
		b.Encrypt(out[i:i+bs], x)
		prev = out[i : i+bs]
	}
	return out
}

func cbcDec(b cipher.Block, iv, data []byte) ([]byte, error) {
	bs := b.BlockSize()
	if len(data)%bs != 0 || len(data) == 0 {
		return nil, errors.New("cbcDec: unaligned")
	}
	out := make([]byte, len(data))
	prev := append([]byte{}, iv...)
	for i := 0; i < len(data); i += bs {
		b.Decrypt(out[i:i+bs], data[i:i+bs])
		for j := 0; j < bs; j++ {
			out[i+j] ^= prev[j]
		}
		prev = data[i : i+bs]
	}
	return out, nil
}

// Pad2: ISO/IEC 9797-1 padding method 2.
func Pad2(d []byte, bs int) []byte {
	out := append(append([]byte{}, d...), 0x80)
	for len(out)%bs != 0 {
		out = append(out, 0)
	}
	return out
}

func Unpad2(d []byte) ([]byte, error) {
	i := len(d) - 1
	for i >= 0 && d[i] == 0 {
		i--
	}
	if i < 0 || d[i] != 0x80 {
		return nil, errors.New("bad padding")
	}
	return d[:i], nil
}

// RetailMAC: ISO/IEC 9797-1 MAC algorithm 3 with DES, IV 0, over already padded data.
func RetailMAC(key, padded []byte) []byte {
	k1, _ := des.NewCipher(key[:8])
	k2, _ := des.NewCipher(key[8:16])
	h := make([]byte, 8)
	for i := 0; i < len(padded); i += 8 {
		for j := 0; j < 8; j++ {
			h[j] ^= padded[i+j]
		}
		k1.Encrypt(h, h)
	}
	k2.Decrypt(h, h)
	k1.Encrypt(h, h)
	return h
}

// CMAC per NIST SP 800-38B (AES), full 16 byte tag.
func CMAC(key, msg []byte) []byte {
	b, err := aes.NewCipher(key)
	if err != nil {
		panic(err)
	}
	const bs = 16
	dbl := func(in []byte) []byte {
		out := make([]byte, bs)
		carry := byte(0)
		for i := bs - 1; i >= 0; i-- {
			out[i] = in[i]<<1 | carry
			carry = in[i] >> 7
		}
		if carry == 1 {
			out[bs-1] ^= 0x87
		}
		return out
	}
	l := make([]byte, bs)
	b.Encrypt(l, l)
	k1 := dbl(l)
	k2 := dbl(k1)
	n := (len(msg) + bs - 1) / bs
	complete := n > 0 && len(msg)%bs == 0
	if n == 0 {
		n = 1
	}
	last := make([]byte, bs)
	if complete {
		copy(last, msg[(n-1)*bs:])
		for i := range last {
			last[i] ^= k1[i]
		}
	} else {
		rem := msg[(n-1)*bs:]
		copy(last, rem)
		last[len(rem)] = 0x80
		for i := range last {
			last[i] ^= k2[i]
		}
	}
	x := make([]byte, bs)
	for i := 0; i < n-1; i++ {
		for j := 0; j < bs; j++ {
			x[j] ^= msg[i*bs+j]
		}
		b.Encrypt(x, x)
	}
	for j := 0; j < bs; j++ {
		x[j] ^= last[j]
	}
	b.Encrypt(x, x)
	return x
}

// mac8 computes the 8-byte session MAC: retail MAC over method-2 padded input (3DES) or
// CMAC truncated to 8 (AES). SM pads before CMAC too (9303-11 §9.8.6.? : "padding is always
// performed by the secure messaging layer"), so callers pass padBeforeCMAC=true for SM and
// false for PACE tokens (where the MAC pads internally).
func mac8(suite string, key, data []byte, padBeforeCMAC bool) []byte {
	if suite == TDES {
		return RetailMAC(key, Pad2(data, 8))
	}
	if padBeforeCMAC {
		data = Pad2(data, 16)
	}
	return CMAC(key, data)[:8]
}

// ---- curves

var p192 = func() elliptic.Curve {
	h := func(s string) *big.Int { v, _ := new(big.Int).SetString(s, 16); return v }
	return &elliptic.CurveParams{Name: "P-192", BitSize: 192,
		P:  h("FFFFFFFFFFFFFFFFFFFFFFFFFFFFFFFEFFFFFFFFFFFFFFFF"),
		N:  h("FFFFFFFFFFFFFFFFFFFFFFFF99DEF836146BC9B1B4D22831"),
		B:  h("64210519E59C80E70FA7E9AB72243049FEB8DEECC146B9B1"),
		Gx: h("188DA80EB03090F67CBF20EB43A18800F4FF0AFD82FF1012"),
		Gy: h("07192B95FFC8DA78631011ED6B24CDD573F977A11E794811")}
}()

// CurveByParamID: standardised domain parameters of 9303-11 table 9.5.1 (EC ids 8..18).
func CurveByParamID(id int) elliptic.Curve {
	switch id {
	case 8:
		return p192
	case 9:
		return brainpool.P192r1()
	case 10:
		return elliptic.P224()
	case 11:
		return brainpool.P224r1()
	case 12:
		return elliptic.P256()
	case 13:
		return brainpool.P256r1()
	case 14:
		return brainpool.P320r1()
	case 15:
		return elliptic.P384()
	case 16:
		return brainpool.P384r1()
	case 17:
		return brainpool.P512r1()
	case 18:
		return elliptic.P521()
	}
	return nil
}

var AllParamIDs = []int{8, 9, 10, 11, 12, 13, 14, 15, 16, 17, 18}

// CurveName returns a stable name for evidence keys.
func CurveName(id int) string {
	return [...]string{8: "secp192r1", 9: "bp192r1", 10: "secp224r1", 11: "bp224r1", 12: "secp256r1", 13: "bp256r1", 14: "bp320r1", 15: "secp384r1", 16: "bp384r1", 17: "bp512r1", 18: "secp521r1"}[id]
}

// SanityCheckCurves verifies G on curve and n*G = O for every curve (trusted-base check).
func SanityCheckCurves() error {
	for _, id := range AllParamIDs {
		c := CurveByParamID(id)
		p := c.Params()
		if !c.IsOnCurve(p.Gx, p.Gy) {
			return fmt.Errorf("curve %d: G not on curve", id)
		}
		nm1 := new(big.Int).Sub(p.N, big.NewInt(1))
		x, y := c.ScalarBaseMult(nm1.Bytes())
		// (n-1)G = -G
		negy := new(big.Int).Sub(p.P, p.Gy)
		if x.Cmp(p.Gx) != 0 || y.Cmp(negy) != 0 {
			return fmt.Errorf("curve %d: (n-1)G != -G", id)
		}
	}
	return nil
}

func fieldLen(c elliptic.Curve) int { return (c.Params().BitSize + 7) / 8 }

// FE2OS: fixed-length big-endian field element (TR-03111 §3.1.3).
func FE2OS(c elliptic.Curve, x *big.Int) []byte {
	out := make([]byte, fieldLen(c))
	x.FillBytes(out)
	return out
}

// EncodePoint: uncompressed X9.62 point.
func EncodePoint(c elliptic.Curve, x, y *big.Int) []byte {
	return append(append([]byte{4}, FE2OS(c, x)...), FE2OS(c, y)...)
}

// DecodePoint: strict uncompressed point on curve, not infinity.
func DecodePoint(c elliptic.Curve, b []byte) (x, y *big.Int, err error) {
	l := fieldLen(c)
	if len(b) != 1+2*l || b[0] != 4 {
		return nil, nil, errors.New("bad point encoding")
	}
	x = new(big.Int).SetBytes(b[1 : 1+l])
	y = new(big.Int).SetBytes(b[1+l:])
	if x.Cmp(c.Params().P) >= 0 || y.Cmp(c.Params().P) >= 0 || !c.IsOnCurve(x, y) {
		return nil, nil, errors.New("point not on curve")
	}
	return x, y, nil
}

func hashByName(n string) hash.Hash {
	switch n {
	case "SHA1":
		return sha1.New()
	case "SHA224":
		return sha256.New224()
	case "SHA256":
		return sha256.New()
	case "SHA384":
		return sha512.New384()
	case "SHA512":
		return sha512.New()
	}
	panic("hash " + n)
}

func Hash(n string, d []byte) []byte {
	h := hashByName(n)
	h.Write(d)
	return h.Sum(nil)
}

// CbcEnc3DES / CbcDec3DES: two-key 3DES CBC with zero IV (BAC cryptograms), for adversary models.
func CbcEnc3DES(key, data []byte) []byte { return cbcEnc(newBlock(TDES, key), make([]byte, 8), data) }
func CbcDec3DES(key, data []byte) ([]byte, error) {
	return cbcDec(newBlock(TDES, key), make([]byte, 8), data)
}
