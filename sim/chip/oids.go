package chip

// Object identifiers (TR-03110-3 A.1, 9303-11 §9.2).
var (
	oidBsiDe       = []int{0, 4, 0, 127, 0, 7}
	OidPK          = append(append([]int{}, oidBsiDe...), 2, 2, 1)
	OidPKDH        = append(append([]int{}, OidPK...), 1)
	OidPKECDH      = append(append([]int{}, OidPK...), 2)
	OidTA          = append(append([]int{}, oidBsiDe...), 2, 2, 2)
	OidCA          = append(append([]int{}, oidBsiDe...), 2, 2, 3)
	OidCADH        = append(append([]int{}, OidCA...), 1)
	OidCAECDH      = append(append([]int{}, OidCA...), 2)
	OidPACE        = append(append([]int{}, oidBsiDe...), 2, 2, 4)
	OidPACEDHGM    = append(append([]int{}, OidPACE...), 1)
	OidPACEECDHGM  = append(append([]int{}, OidPACE...), 2)
	OidPACEDHIM    = append(append([]int{}, OidPACE...), 3)
	OidPACEECDHIM  = append(append([]int{}, OidPACE...), 4)
	OidPACEECDHCAM = append(append([]int{}, OidPACE...), 6)
	// standardised EC key type with BSI parameters reference (bsi-de 1 2 = ecStdCurvesAndGeneration? used for CAM keys): id-ecc? not needed here
)

func suiteArc(suite string) int {
	switch suite {
	case TDES:
		return 1
	case AES128:
		return 2
	case AES192:
		return 3
	case AES256:
		return 4
	}
	panic("suite")
}

// PaceOID returns the protocol OID for ECDH generic mapping or chip authentication mapping.
func PaceOID(suite string, cam bool) []int {
	base := OidPACEECDHGM
	if cam {
		base = OidPACEECDHCAM
	}
	return append(append([]int{}, base...), suiteArc(suite))
}

func CAOID(suite string) []int {
	return append(append([]int{}, OidCAECDH...), suiteArc(suite))
}

// EncOID encodes the value octets of an OBJECT IDENTIFIER.
func EncOID(arcs []int) []byte {
	out := []byte{byte(arcs[0]*40 + arcs[1])}
	for _, a := range arcs[2:] {
		var tmp []byte
		tmp = append(tmp, byte(a&0x7F))
		a >>= 7
		for a > 0 {
			tmp = append([]byte{byte(a&0x7F) | 0x80}, tmp...)
			a >>= 7
		}
		out = append(out, tmp...)
	}
	return out
}

func oidEq(a, b []int) bool {
	if len(a) != len(b) {
		return false
	}
	for i := range a {
		if a[i] != b[i] {
			return false
		}
	}
	return true
}
