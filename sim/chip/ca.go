package chip

import (
	"bytes"
	"crypto/elliptic"
	"fmt"
	"math/big"
)

type caPending struct {
	sm    *SM
	ready bool
}

func keyIDFrom(t *TLV) *int64 {
	if t == nil {
		return nil
	}
	var v int64
	for _, b := range t.Val {
		v = v<<8 | int64(b)
	}
	return &v
}

func (c *Chip) selectCAKey(id *int64) *CAKey {
	if id == nil {
		if len(c.P.CAKeys) == 1 {
			return &c.P.CAKeys[0]
		}
		// several keys and no reference: use the one without a key id, if unique
		var cand *CAKey
		for i := range c.P.CAKeys {
			if c.P.CAKeys[i].KeyID == nil {
				if cand != nil {
					return nil
				}
				cand = &c.P.CAKeys[i]
			}
		}
		return cand
	}
	for i := range c.P.CAKeys {
		if c.P.CAKeys[i].KeyID != nil && *c.P.CAKeys[i].KeyID == *id {
			return &c.P.CAKeys[i]
		}
	}
	return nil
}

func (c *Chip) caCompute(key *CAKey, suite string, pk []byte, ex *Exchange) bool {
	x, y, err := DecodePoint(key.Curve, pk)
	if err != nil {
		return false
	}
	kx, _ := key.Curve.ScalarMult(x, y, key.D.Bytes())
	k := FE2OS(key.Curve, kx)
	if k[0] == 0 {
		c.Facts.SharedSecretsZeros++
	}
	c.caPend = &caPending{sm: NewSM(suite, KDF(k, 1, suite), KDF(k, 2, suite)), ready: true}
	return true
}

// MSE:Set KAT (TR-03110-3 B.11.? legacy 3DES chip authentication)
func (c *Chip) mseSetKAT(ts []TLV, viaSM bool, ex *Exchange) ([]byte, uint16) {
	ex.Action = "mse-set-kat"
	if !(c.access && viaSM) {
		return nil, 0x6982
	}
	pk := findTLV(ts, 0x91)
	if pk == nil {
		return nil, 0x6A80
	}
	key := c.selectCAKey(keyIDFrom(findTLV(ts, 0x84)))
	if key == nil {
		return nil, 0x6A88
	}
	// Set KAT is defined for the 3DES protocol only; a chip that advertises AES infos refuses it
	for _, p := range c.P.CAProto {
		if p.Suite == TDES {
			goto ok
		}
	}
	if len(c.P.CAProto) > 0 {
		return nil, 0x6A80
	}
ok:
	if !c.caCompute(key, TDES, pk.Val, ex) {
		return nil, 0x6A80
	}
	ex.Action = "mse-set-kat ok"
	return nil, 0x9000
}

func (c *Chip) mseSetATCA(ts []TLV, viaSM bool, ex *Exchange) ([]byte, uint16) {
	ex.Action = "mse-set-at-ca"
	c.caAT = nil
	if !(c.access && viaSM) {
		return nil, 0x6982
	}
	oid := findTLV(ts, 0x80)
	if oid == nil {
		return nil, 0x6A80
	}
	id := keyIDFrom(findTLV(ts, 0x84))
	for i := range c.P.CAProto {
		p := &c.P.CAProto[i]
		if !bytes.Equal(EncOID(p.OID), oid.Val) {
			continue
		}
		if id != nil && (p.KeyID == nil || *p.KeyID != *id) {
			continue
		}
		if id == nil && p.KeyID != nil && len(c.P.CAKeys) > 1 {
			continue
		}
		c.caAT = p
		c.caATKey = id
		return nil, 0x9000
	}
	return nil, 0x6A80
}

func (c *Chip) caGeneralAuthenticate(in []TLV, chaining bool, viaSM bool, ex *Exchange) ([]byte, uint16) {
	ex.Action = "ca general-authenticate"
	at := c.caAT
	c.caAT = nil
	if !(c.access && viaSM) {
		return nil, 0x6982
	}
	if chaining || len(in) != 1 || in[0].Tag != 0x80 {
		return nil, 0x6A80
	}
	id := c.caATKey
	if id == nil {
		id = at.KeyID
	}
	key := c.selectCAKey(id)
	if key == nil {
		return nil, 0x6A88
	}
	if !c.caCompute(key, at.Suite, in[0].Val, ex) {
		return nil, 0x6A80
	}
	ex.Action = fmt.Sprintf("ca general-authenticate ok suite=%s", at.Suite)
	return EncTLV(0x7C, nil), 0x9000
}

// NewCAKey makes a key pair from a scalar.
func NewCAKey(curve elliptic.Curve, d *big.Int, id *int64) CAKey {
	x, y := curve.ScalarBaseMult(d.Bytes())
	return CAKey{KeyID: id, Curve: curve, D: d, X: x, Y: y}
}
