package chip

import (
	"bytes"
	"errors"
	"fmt"
)

// SM is the chip side of ICAO 9303-11 §9.8 secure messaging (own implementation).
type SM struct {
	Suite string
	KEnc  []byte
	KMac  []byte
	SSC   []byte // 8 (3DES) or 16 (AES) bytes, unsigned big endian counter, wraps modulo 2^(8*len)
	// OmitDO99: non-conformant generator that leaves the protected status out (used by adversary models only)
	OmitDO99 bool
}

func NewSM(suite string, kenc, kmac []byte) *SM {
	return &SM{Suite: suite, KEnc: bytes.Clone(kenc), KMac: bytes.Clone(kmac), SSC: make([]byte, blockSize(suite))}
}

func (s *SM) String() string {
	return fmt.Sprintf("(suite:%s kenc:%x kmac:%x ssc:%x)", s.Suite, s.KEnc, s.KMac, s.SSC)
}

func (s *SM) Clone() *SM {
	return &SM{Suite: s.Suite, KEnc: bytes.Clone(s.KEnc), KMac: bytes.Clone(s.KMac), SSC: bytes.Clone(s.SSC)}
}

func (s *SM) inc() {
	for i := len(s.SSC) - 1; i >= 0; i-- {
		s.SSC[i]++
		if s.SSC[i] != 0 {
			return
		}
	}
}

// Inc advances the counter by one (exported for adversary models).
func (s *SM) Inc() { s.inc() }

func (s *SM) iv() []byte {
	iv := make([]byte, blockSize(s.Suite))
	if isAES(s.Suite) {
		newBlock(s.Suite, s.KEnc).Encrypt(iv, s.SSC)
	}
	return iv
}

func (s *SM) mac(data []byte) []byte { return mac8(s.Suite, s.KMac, data, true) }

var errSMMissing = errors.New("expected SM data objects missing")
var errSMIncorrect = errors.New("SM data objects incorrect")

// Unwrap authenticates and decrypts a protected command. It increments the SSC first.
func (s *SM) Unwrap(outer CAPDU) (CAPDU, error) {
	var plain CAPDU
	s.inc()
	ts, err := ParseTLVs(outer.Data)
	if err != nil {
		return plain, errSMIncorrect
	}
	if len(ts) == 0 {
		return plain, errSMMissing
	}
	// order: [85|87] [97] 8E
	i := 0
	var doData, do97 *TLV
	if i < len(ts) && (ts[i].Tag == 0x87 || ts[i].Tag == 0x85) {
		doData = &ts[i]
		i++
	}
	if i < len(ts) && ts[i].Tag == 0x97 {
		do97 = &ts[i]
		i++
	}
	if i != len(ts)-1 || ts[i].Tag != 0x8E {
		if findTLV(ts, 0x8E) == nil {
			return plain, errSMMissing
		}
		return plain, errSMIncorrect
	}
	do8e := &ts[i]
	if len(do8e.Val) != 8 {
		return plain, errSMIncorrect
	}
	bs := blockSize(s.Suite)
	hdr := Pad2([]byte{outer.CLA, outer.INS, outer.P1, outer.P2}, bs)
	m := append(bytes.Clone(s.SSC), hdr...)
	if doData != nil {
		m = append(m, doData.Raw...)
	}
	if do97 != nil {
		m = append(m, do97.Raw...)
	}
	if !bytes.Equal(s.mac(m), do8e.Val) {
		return plain, errSMIncorrect
	}
	plain.CLA = outer.CLA &^ 0x0C
	plain.INS, plain.P1, plain.P2 = outer.INS, outer.P1, outer.P2
	if doData != nil {
		odd := outer.INS&1 == 1
		if (doData.Tag == 0x85) != odd {
			return plain, errSMIncorrect // 9303-11 9.8.4: even INS -> DO87, odd INS -> DO85
		}
		if len(doData.Val) < 1+bs || doData.Val[0] != 0x01 {
			return plain, errSMIncorrect
		}
		dec, err := cbcDec(newBlock(s.Suite, s.KEnc), s.iv(), doData.Val[1:])
		if err != nil {
			return plain, errSMIncorrect
		}
		plain.Data, err = Unpad2(dec)
		if err != nil {
			return plain, errSMIncorrect
		}
	}
	if do97 != nil {
		plain.HasLe = true
		switch len(do97.Val) {
		case 1:
			plain.Le = int(do97.Val[0])
			if plain.Le == 0 {
				plain.Le = 256
			}
		case 2:
			plain.Le = int(do97.Val[0])<<8 | int(do97.Val[1])
			if plain.Le == 0 {
				plain.Le = 65536
			}
			plain.Extended = true
		default:
			return plain, errSMIncorrect
		}
	}
	switch {
	case len(plain.Data) == 0 && !plain.HasLe:
		plain.Case = "1"
	case len(plain.Data) == 0:
		plain.Case = "2"
	case !plain.HasLe:
		plain.Case = "3"
	default:
		plain.Case = "4"
	}
	return plain, nil
}

// Wrap protects a response. It increments the SSC first.
func (s *SM) Wrap(ins byte, data []byte, status uint16) []byte {
	s.inc()
	var dos []byte
	if len(data) > 0 {
		enc := cbcEnc(newBlock(s.Suite, s.KEnc), s.iv(), Pad2(data, blockSize(s.Suite)))
		tag := 0x87
		if ins&1 == 1 {
			tag = 0x85
		}
		dos = append(dos, EncTLV(tag, append([]byte{0x01}, enc...))...)
	}
	if !s.OmitDO99 {
		dos = append(dos, EncTLV(0x99, sw(status))...)
	}
	m := append(bytes.Clone(s.SSC), dos...)
	dos = append(dos, EncTLV(0x8E, s.mac(m))...)
	return append(dos, sw(status)...)
}
