package pki

import (
	"math/big"
	"testing"

	"verif/sim/chip"
)

// harness self-check: derived (a,b) reproduce the known NIST values and put 3G on the curve.
func TestCurveAB(t *testing.T) {
	for _, id := range chip.AllParamIDs {
		c := chip.CurveByParamID(id)
		a, b := curveAB(c)
		p := c.Params()
		if p.B != nil && p.B.Cmp(b) != 0 {
			t.Fatalf("curve %d: b mismatch", id)
		}
		if p.B != nil {
			m3 := new(big.Int).Sub(p.P, big.NewInt(3))
			if a.Cmp(m3) != 0 {
				t.Fatalf("curve %d: a != -3", id)
			}
		}
		x, y := c.ScalarBaseMult([]byte{3})
		l := new(big.Int).Mul(y, y)
		r := new(big.Int).Mul(x, x)
		r.Mul(r, x)
		r.Add(r, new(big.Int).Mul(a, x))
		r.Add(r, b)
		if l.Mod(l, p.P).Cmp(r.Mod(r, p.P)) != 0 {
			t.Fatalf("curve %d: 3G not on derived curve", id)
		}
	}
	// RFC 5639 brainpoolP256r1 A
	a, _ := curveAB(chip.CurveByParamID(13))
	if a.Text(16) != "7d5a0975fc2c3057eef67530417affe7fb8055c126dc5c6ce94a4b44f330b5d9" {
		t.Fatalf("bp256r1 a = %s", a.Text(16))
	}
}
