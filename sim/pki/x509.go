package pki

import (
	"crypto/sha1"
	"math/big"
	"time"

	"verif/sim/core"
	"verif/sim/der"
)

var (
	oidC      = []int{2, 5, 4, 6}
	oidO      = []int{2, 5, 4, 10}
	oidOU     = []int{2, 5, 4, 11}
	oidCN     = []int{2, 5, 4, 3}
	oidSerial = []int{2, 5, 4, 5}

	oidExtSKI    = []int{2, 5, 29, 14}
	oidExtKU     = []int{2, 5, 29, 15}
	oidExtBC     = []int{2, 5, 29, 19}
	oidExtAKI    = []int{2, 5, 29, 35}
	oidExtEKU    = []int{2, 5, 29, 37}
	oidAnyEKU    = []int{2, 5, 29, 37, 0}
	oidServerEKU = []int{1, 3, 6, 1, 5, 5, 7, 3, 1}
	oidUnknownX  = []int{1, 3, 6, 1, 4, 1, 99999, 1, 7}
)

// NameAttr is one attribute of a distinguished name.
type NameAttr struct {
	OID   []int
	Value string
	UTF8  bool // encode as UTF8String instead of PrintableString
}

// Name is an RDNSequence with one attribute per RDN.
type Name []NameAttr

func (n Name) DER() []byte {
	var rdns [][]byte
	for _, a := range n {
		var v []byte
		if a.UTF8 {
			v = der.UTF8(a.Value)
		} else {
			v = der.Printable(a.Value)
		}
		rdns = append(rdns, der.Set(der.Seq(der.OID(a.OID...), v)))
	}
	return der.Seq(rdns...)
}

func CountryName(alpha2, org, cn string) Name {
	return Name{{OID: oidC, Value: alpha2}, {OID: oidO, Value: org}, {OID: oidCN, Value: cn}}
}

// Reordered returns the same attributes in another order / string type (validity-neutral variation).
func (n Name) Reordered(utf8 bool) Name {
	out := make(Name, len(n))
	for i := range n {
		out[len(n)-1-i] = n[i]
		if utf8 && !equalOID(n[i].OID, oidC) {
			out[len(n)-1-i].UTF8 = true
		}
	}
	return out
}

func equalOID(a, b []int) bool {
	if len(a) != len(b) {
		return false
	}
	for i := range a {
		if a[i] != b[i] {
			return false
		}
	}
	return true
}

// CertSpec describes a certificate to issue.
type CertSpec struct {
	Serial    *big.Int
	Issuer    Name
	Subject   Name
	NotBefore time.Time
	NotAfter  time.Time
	Key       *Key // subject key
	// extensions
	SKI          []byte // nil = omit
	AKI          []byte // nil = omit
	IsCA         bool
	BCFalse      int // 1: BasicConstraints present with an empty SEQUENCE (cA defaults to FALSE); 2: explicit cA FALSE
	OmitBC       bool
	PathLen      int   // -1 = absent
	KeyUsageBits []int // nil = omit extension
	EKU          [][]int
	EKUCritical  bool
	UnknownCrit  bool // add an unknown critical extension
	GenTime      bool // force GeneralizedTime in validity
}

// SKIOf is the usual SHA-1 key identifier of the subject public key bits.
func SKIOf(k *Key) []byte {
	h := sha1.Sum(k.SPKI())
	return h[:]
}

// Cert is an issued certificate.
type Cert struct {
	DER  []byte
	TBS  []byte
	Sig  []byte // signature value octets (inside the BIT STRING)
	Spec CertSpec
}

func ext(oid []int, critical bool, value []byte) []byte {
	parts := [][]byte{der.OID(oid...)}
	if critical {
		parts = append(parts, der.Bool(true))
	}
	parts = append(parts, der.Octet(value))
	return der.Seq(parts...)
}

// Issue builds and signs a certificate with the issuer key and scheme.
func Issue(spec CertSpec, issuerKey *Key, scheme Scheme, rng *core.Rng) *Cert {
	var exts [][]byte
	if spec.SKI != nil {
		exts = append(exts, ext(oidExtSKI, false, der.Octet(spec.SKI)))
	}
	if spec.AKI != nil {
		exts = append(exts, ext(oidExtAKI, false, der.Seq(der.ImplicitPrim(0, spec.AKI))))
	}
	if spec.BCFalse == 1 {
		exts = append(exts, ext(oidExtBC, true, der.Seq()))
	} else if spec.BCFalse == 2 {
		exts = append(exts, ext(oidExtBC, true, der.Seq(der.Bool(false))))
	} else if spec.IsCA || !spec.OmitBC {
		if spec.IsCA {
			bc := [][]byte{der.Bool(true)}
			if spec.PathLen >= 0 {
				bc = append(bc, der.IntI(int64(spec.PathLen)))
			}
			exts = append(exts, ext(oidExtBC, true, der.Seq(bc...)))
		}
	}
	if spec.KeyUsageBits != nil {
		exts = append(exts, ext(oidExtKU, true, der.BitStringBits(spec.KeyUsageBits...)))
	}
	if spec.EKU != nil {
		var ids [][]byte
		for _, o := range spec.EKU {
			ids = append(ids, der.OID(o...))
		}
		exts = append(exts, ext(oidExtEKU, spec.EKUCritical, der.Seq(ids...)))
	}
	if spec.UnknownCrit {
		exts = append(exts, ext(oidUnknownX, true, der.Octet([]byte{1, 2, 3})))
	}
	tm := der.Time
	if spec.GenTime {
		tm = der.GenTime
	}
	parts := [][]byte{
		der.Explicit(0, der.IntI(2)),
		der.Int(spec.Serial),
		scheme.AlgID(),
		spec.Issuer.DER(),
		der.Seq(tm(spec.NotBefore), tm(spec.NotAfter)),
		spec.Subject.DER(),
		spec.Key.SPKI(),
	}
	if len(exts) > 0 {
		parts = append(parts, der.Explicit(3, der.Seq(exts...)))
	}
	tbs := der.Seq(parts...)
	sig := issuerKey.Sign(scheme, tbs, rng)
	return &Cert{DER: der.Seq(tbs, scheme.AlgID(), der.BitString(sig)), TBS: tbs, Sig: sig, Spec: spec}
}

const (
	KUDigitalSignature = 0
	KUKeyCertSign      = 5
	KUCRLSign          = 6
)
