package pki

import (
	"bytes"
	"time"

	"verif/sim/chip"
	"verif/sim/core"
	"verif/sim/der"
)

var (
	OidSignedData      = []int{1, 2, 840, 113549, 1, 7, 2}
	oidContentType     = []int{1, 2, 840, 113549, 1, 9, 3}
	oidMessageDigest   = []int{1, 2, 840, 113549, 1, 9, 4}
	oidSigningTime     = []int{1, 2, 840, 113549, 1, 9, 5}
	OidLdsSecurityObj  = []int{2, 23, 136, 1, 1, 1}
	OidCscaMasterList  = []int{2, 23, 136, 1, 1, 2}
	OidSecurityObject  = []int{0, 4, 0, 127, 0, 7, 3, 2, 1} // id-SecurityObject (EF.CardSecurity)
	oidMasterListSigEK = []int{2, 23, 136, 1, 1, 3}
)

// SignedDataSpec describes a CMS SignedData to produce.
type SignedDataSpec struct {
	EContentType []int
	EContent     []byte
	DigestAlg    string
	Scheme       Scheme
	Signer       *Key
	SignerCert   *Cert
	ExtraCerts   []*Cert
	ExtraFirst   bool // additional certificates before the signer's
	EncapType    []int // when set: eContentType written into encapContentInfo, while the signed content-type attribute keeps EContentType
	SIDForm      string // issuerSerial | ski
	SIDIssuer    Name   // nil: the certificate's issuer name as is
	SigningTime  *time.Time
	Indefinite   bool
	IndefMask    int // see Build: which levels are indefinite (0 = all)
	HashNoParams bool // digest AlgorithmIdentifier without NULL
	// fault hooks (byzantine issuer / attacker): applied before signing unless stated otherwise
	WrongMessageDigest bool // messageDigest attribute does not match eContent (still signed)
	WrongContentType   bool // contentType attribute names another type (still signed)
	OmitSignedAttrs    bool
}

// Region is a byte range [Off, Off+Len) of the final encoding.
type Region struct{ Off, Len int }

type SignedData struct {
	DER         []byte
	Regions     map[string]Region
	SignedAttrs []byte // DER SET OF as signed
	Sig         []byte
	Spec        SignedDataSpec
}

func attr(oid []int, value []byte) []byte {
	return der.Seq(der.OID(oid...), der.Set(value))
}

// BuildSignedData produces ContentInfo(SignedData) and the region map.
func BuildSignedData(s SignedDataSpec, rng *core.Rng) *SignedData {
	hashID := HashAlgID(s.DigestAlg)
	if s.HashNoParams {
		hashID = HashAlgIDNoParams(s.DigestAlg)
	}
	md := chip.Hash(s.DigestAlg, s.EContent)
	if s.WrongMessageDigest {
		md = chip.Hash(s.DigestAlg, append([]byte("x"), s.EContent...))
	}
	ct := s.EContentType
	if s.WrongContentType {
		ct = []int{1, 2, 840, 113549, 1, 7, 1}
	}
	attrs := [][]byte{attr(oidContentType, der.OID(ct...)), attr(oidMessageDigest, der.Octet(md))}
	if s.SigningTime != nil {
		attrs = append(attrs, attr(oidSigningTime, der.Time(*s.SigningTime)))
	}
	signedSet := der.Set(attrs...)
	schemeForSig := s.Scheme
	schemeForSig.Hash = s.DigestAlg
	sig := s.Signer.Sign(schemeForSig, signedSet, rng)

	var sid []byte
	version := int64(1)
	if s.SIDForm == "ski" {
		version = 3
		sid = der.ImplicitPrim(0, s.SignerCert.Spec.SKI)
	} else {
		iss := s.SignerCert.Spec.Issuer
		if s.SIDIssuer != nil {
			iss = s.SIDIssuer
		}
		sid = der.Seq(iss.DER(), der.Int(s.SignerCert.Spec.Serial))
	}
	siParts := [][]byte{der.IntI(version), sid, hashID}
	if !s.OmitSignedAttrs {
		siParts = append(siParts, der.ImplicitCons(0, signedSet))
	}
	siParts = append(siParts, schemeForSig.AlgID(), der.Octet(sig))
	si := der.Seq(siParts...)

	var certs []byte
	if !s.ExtraFirst {
		certs = append(certs, s.SignerCert.DER...)
	}
	for _, c := range s.ExtraCerts {
		certs = append(certs, c.DER...)
	}
	if s.ExtraFirst {
		certs = append(certs, s.SignerCert.DER...)
	}
	encapType := s.EContentType
	if s.EncapType != nil {
		encapType = s.EncapType
	}
	encap := der.Seq(der.OID(encapType...), der.Explicit(0, der.Octet(s.EContent)))
	sdContent := [][]byte{der.IntI(3), der.Set(hashID), encap, der.TLV(0xA0, certs), der.Set(si)}
	var out []byte
	if s.Indefinite {
		var inner []byte
		for _, p := range sdContent {
			inner = append(inner, p...)
		}
		// which of the three enclosing levels use the indefinite form: ContentInfo SEQUENCE (1), [0] wrapper (2),
		// SignedData SEQUENCE (4); 0 = all of them
		m := s.IndefMask & 7
		if m == 0 {
			m = 7
		}
		lvl := func(bit int, tag byte, content []byte) []byte {
			if m&bit != 0 {
				return der.Indefinite(tag, content)
			}
			return der.TLV(tag, content)
		}
		sd := lvl(4, 0x30, inner)
		out = lvl(1, 0x30, append(der.OID(OidSignedData...), lvl(2, 0xA0, sd)...))
	} else {
		out = der.Seq(der.OID(OidSignedData...), der.Explicit(0, der.Seq(sdContent...)))
	}
	res := &SignedData{DER: out, SignedAttrs: signedSet, Sig: sig, Spec: s, Regions: map[string]Region{}}
	find := func(name string, sub []byte) {
		if i := bytes.Index(out, sub); i >= 0 && len(sub) > 0 {
			res.Regions[name] = Region{i, len(sub)}
		}
	}
	find("eContent", s.EContent)
	if !s.OmitSignedAttrs {
		// robust: locate the content octets of the SET
		content := setContent(signedSet)
		find("signedAttrs", content)
	}
	find("siSignature", sig)
	find("dsTBS", s.SignerCert.TBS)
	find("dsSignature", s.SignerCert.Sig)
	return res
}

func setContent(set []byte) []byte {
	ts, err := chip.ParseTLVs(set)
	if err != nil || len(ts) != 1 {
		return nil
	}
	return ts[0].Val
}

// WrapSOD wraps the SignedData in the EF.SOD application tag 0x77.
func WrapSOD(sd []byte) []byte { return der.TLV(0x77, sd) }

// LDSSecurityObject builds the eContent of EF.SOD.
func LDSSecurityObject(version int, hash string, dgHashes map[int][]byte, order []int, ldsVer, unicodeVer string, hashNoParams bool) []byte {
	var hs [][]byte
	for _, n := range order {
		hs = append(hs, der.Seq(der.IntI(int64(n)), der.Octet(dgHashes[n])))
	}
	hid := HashAlgID(hash)
	if hashNoParams {
		hid = HashAlgIDNoParams(hash)
	}
	parts := [][]byte{der.IntI(int64(version)), hid, der.Seq(hs...)}
	if version == 1 {
		parts = append(parts, der.Seq(der.Printable(ldsVer), der.Printable(unicodeVer)))
	}
	return der.Seq(parts...)
}

// MasterList builds the CscaMasterList eContent.
func MasterList(certs []*Cert) []byte {
	var cs [][]byte
	for _, c := range certs {
		cs = append(cs, c.DER)
	}
	return der.Seq(der.IntI(0), der.Set(cs...))
}
