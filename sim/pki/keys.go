// Package pki is the simulated issuer ("SimPKI"): own DER builders for X.509 certificates,
// CMS SignedData (EF.SOD, EF.CardSecurity, CSCA master list) and own signing code over
// math/big (RSA PKCS#1 v1.5, RSASSA-PSS, ECDSA on any curve). Independent of gmrtd/cms.
package pki

import (
	"crypto/elliptic"
	_ "embed"
	"encoding/json"
	"math/big"

	"verif/sim/chip"
	"verif/sim/core"
	"verif/sim/der"
)

//go:embed rsapool.json
var rsaPoolJSON []byte

type RSAKey struct {
	Bits int
	N, D *big.Int
	E    int
}

var rsaPool = func() []RSAKey {
	var raw []struct {
		Bits int    `json:"bits"`
		N    string `json:"n"`
		D    string `json:"d"`
		E    int    `json:"e"`
	}
	if err := json.Unmarshal(rsaPoolJSON, &raw); err != nil {
		panic(err)
	}
	var out []RSAKey
	for _, r := range raw {
		n, _ := new(big.Int).SetString(r.N, 16)
		d, _ := new(big.Int).SetString(r.D, 16)
		out = append(out, RSAKey{r.Bits, n, d, r.E})
	}
	return out
}()

// RSAByBits returns the pool keys of the given modulus size.
func RSAByBits(bits int) []RSAKey {
	var out []RSAKey
	for _, k := range rsaPool {
		if k.Bits == bits {
			out = append(out, k)
		}
	}
	return out
}

func RSASizes() []int {
	seen := map[int]bool{}
	var out []int
	for _, k := range rsaPool {
		if !seen[k.Bits] {
			seen[k.Bits] = true
			out = append(out, k.Bits)
		}
	}
	return out
}

// Key is a signing / subject key of the simulated PKI.
type Key struct {
	RSA *RSAKey
	// EC
	CurveID  int // 8..18 (same numbering as the PACE standardised parameters)
	Curve    elliptic.Curve
	D        *big.Int
	X, Y     *big.Int
	Explicit bool // encode domain parameters explicitly in the SPKI
}

func NewECKey(curveID int, rng *core.Rng, explicit bool) *Key {
	c := chip.CurveByParamID(curveID)
	n := c.Params().N
	var d *big.Int
	for {
		d = new(big.Int).SetBytes(rng.Bytes((n.BitLen() + 7) / 8))
		d.Mod(d, n)
		if d.Sign() > 0 {
			break
		}
	}
	x, y := c.ScalarBaseMult(d.Bytes())
	return &Key{CurveID: curveID, Curve: c, D: d, X: x, Y: y, Explicit: explicit}
}

func NewRSAKey(bits int, rng *core.Rng) *Key {
	ks := RSAByBits(bits)
	k := ks[rng.Intn(len(ks))]
	return &Key{RSA: &k}
}

var (
	oidRsaEncryption = []int{1, 2, 840, 113549, 1, 1, 1}
	oidRsaPss        = []int{1, 2, 840, 113549, 1, 1, 10}
	oidMgf1          = []int{1, 2, 840, 113549, 1, 1, 8}
	oidEcPublicKey   = []int{1, 2, 840, 10045, 2, 1}
	oidPrimeField    = []int{1, 2, 840, 10045, 1, 1}
)

var namedCurveOID = map[int][]int{
	8:  {1, 2, 840, 10045, 3, 1, 1},
	10: {1, 3, 132, 0, 33},
	12: {1, 2, 840, 10045, 3, 1, 7},
	15: {1, 3, 132, 0, 34},
	18: {1, 3, 132, 0, 35},
	9:  {1, 3, 36, 3, 3, 2, 8, 1, 1, 3},
	11: {1, 3, 36, 3, 3, 2, 8, 1, 1, 5},
	13: {1, 3, 36, 3, 3, 2, 8, 1, 1, 7},
	14: {1, 3, 36, 3, 3, 2, 8, 1, 1, 9},
	16: {1, 3, 36, 3, 3, 2, 8, 1, 1, 11},
	17: {1, 3, 36, 3, 3, 2, 8, 1, 1, 13},
}

var hashOID = map[string][]int{
	"SHA1":   {1, 3, 14, 3, 2, 26},
	"SHA224": {2, 16, 840, 1, 101, 3, 4, 2, 4},
	"SHA256": {2, 16, 840, 1, 101, 3, 4, 2, 1},
	"SHA384": {2, 16, 840, 1, 101, 3, 4, 2, 2},
	"SHA512": {2, 16, 840, 1, 101, 3, 4, 2, 3},
}

var rsaPkcs1OID = map[string][]int{
	"SHA1":   {1, 2, 840, 113549, 1, 1, 5},
	"SHA224": {1, 2, 840, 113549, 1, 1, 14},
	"SHA256": {1, 2, 840, 113549, 1, 1, 11},
	"SHA384": {1, 2, 840, 113549, 1, 1, 12},
	"SHA512": {1, 2, 840, 113549, 1, 1, 13},
}

var ecdsaOID = map[string][]int{
	"SHA1":   {1, 2, 840, 10045, 4, 1},
	"SHA224": {1, 2, 840, 10045, 4, 3, 1},
	"SHA256": {1, 2, 840, 10045, 4, 3, 2},
	"SHA384": {1, 2, 840, 10045, 4, 3, 3},
	"SHA512": {1, 2, 840, 10045, 4, 3, 4},
}

var Hashes = []string{"SHA1", "SHA224", "SHA256", "SHA384", "SHA512"}

func HashAlgID(h string) []byte { return der.Seq(der.OID(hashOID[h]...), der.Null()) }

// HashAlgIDNoParams omits the NULL parameters (both forms occur in the field).
func HashAlgIDNoParams(h string) []byte { return der.Seq(der.OID(hashOID[h]...)) }

// curveAB computes the coefficients of y^2 = x^3 + ax + b from two points (G and 2G): the
// elliptic.Curve interface does not expose a, and the brainpool r1 wrappers do not expose b.
func curveAB(c elliptic.Curve) (a, b *big.Int) {
	p := c.Params()
	x1, y1 := p.Gx, p.Gy
	x2, y2 := c.Double(x1, y1)
	f := func(x, y *big.Int) *big.Int { // y^2 - x^3
		y2 := new(big.Int).Mul(y, y)
		x3 := new(big.Int).Mul(x, x)
		x3.Mul(x3, x)
		return y2.Sub(y2, x3).Mod(y2, p.P)
	}
	d := new(big.Int).Sub(f(x1, y1), f(x2, y2))
	dx := new(big.Int).Sub(x1, x2)
	dx.Mod(dx, p.P)
	a = d.Mul(d, new(big.Int).ModInverse(dx, p.P))
	a.Mod(a, p.P)
	b = new(big.Int).Sub(f(x1, y1), new(big.Int).Mul(a, x1))
	b.Mod(b, p.P)
	return a, b
}

// ECParameters encodes explicit (specified) domain parameters (X9.62 / TR-03111), cofactor included.
func ECParameters(c elliptic.Curve) []byte {
	p := c.Params()
	a, b := curveAB(c)
	return der.Seq(
		der.IntI(1),
		der.Seq(der.OID(oidPrimeField...), der.Int(p.P)),
		der.Seq(der.Octet(chip.FE2OS(c, a)), der.Octet(chip.FE2OS(c, b))),
		der.Octet(chip.EncodePoint(c, p.Gx, p.Gy)),
		der.Int(p.N),
		der.IntI(1),
	)
}

// SPKI returns the DER SubjectPublicKeyInfo.
func (k *Key) SPKI() []byte {
	if k.RSA != nil {
		pub := der.Seq(der.Int(k.RSA.N), der.IntI(int64(k.RSA.E)))
		return der.Seq(der.Seq(der.OID(oidRsaEncryption...), der.Null()), der.BitString(pub))
	}
	var params []byte
	if k.Explicit {
		params = ECParameters(k.Curve)
	} else {
		params = der.OID(namedCurveOID[k.CurveID]...)
	}
	return der.Seq(der.Seq(der.OID(oidEcPublicKey...), params), der.BitString(chip.EncodePoint(k.Curve, k.X, k.Y)))
}

// SPKIWithAlg is the TR-03110 form used in ChipAuthenticationPublicKeyInfo / CardSecurity:
// the algorithm OID is given by the caller (e.g. id-ecPublicKey, or bsi-de standardised domain parameters).
func (k *Key) PointBytes() []byte { return chip.EncodePoint(k.Curve, k.X, k.Y) }

// Scheme is a signature scheme.
type Scheme struct {
	Kind string // pkcs1 | pss | ecdsa
	Hash string
	// PKCS1UseRsaEncryptionOID: signatureAlgorithm in SignerInfo is plain rsaEncryption
	PlainRsaOID bool
}

func (s Scheme) String() string { return s.Kind + "-" + s.Hash }

// AlgID is the signature AlgorithmIdentifier.
func (s Scheme) AlgID() []byte {
	switch s.Kind {
	case "pkcs1":
		if s.PlainRsaOID {
			return der.Seq(der.OID(oidRsaEncryption...), der.Null())
		}
		return der.Seq(der.OID(rsaPkcs1OID[s.Hash]...), der.Null())
	case "pss":
		hlen := len(chip.Hash(s.Hash, nil))
		params := der.Seq(
			der.Explicit(0, HashAlgID(s.Hash)),
			der.Explicit(1, der.Seq(der.OID(oidMgf1...), HashAlgID(s.Hash))),
			der.Explicit(2, der.IntI(int64(hlen))),
		)
		return der.Seq(der.OID(oidRsaPss...), params)
	case "ecdsa":
		return der.Seq(der.OID(ecdsaOID[s.Hash]...))
	}
	panic("scheme")
}

func mgf1(hash string, seed []byte, n int) []byte {
	var out []byte
	for c := uint32(0); len(out) < n; c++ {
		in := append(append([]byte{}, seed...), byte(c>>24), byte(c>>16), byte(c>>8), byte(c))
		out = append(out, chip.Hash(hash, in)...)
	}
	return out[:n]
}

// Sign signs msg (hashing it with the scheme's hash). RSA: signature octets; ECDSA: DER Ecdsa-Sig-Value.
func (k *Key) Sign(s Scheme, msg []byte, rng *core.Rng) []byte {
	digest := chip.Hash(s.Hash, msg)
	switch s.Kind {
	case "pkcs1":
		klen := (k.RSA.N.BitLen() + 7) / 8
		di := der.Seq(der.Seq(der.OID(hashOID[s.Hash]...), der.Null()), der.Octet(digest))
		em := make([]byte, klen)
		em[1] = 1
		for i := 2; i < klen-len(di)-1; i++ {
			em[i] = 0xFF
		}
		copy(em[klen-len(di):], di)
		return rsaPriv(k.RSA, em, klen)
	case "pss":
		modBits := k.RSA.N.BitLen()
		emBits := modBits - 1
		emLen := (emBits + 7) / 8
		hlen := len(digest)
		salt := rng.Bytes(hlen)
		mp := append(append(make([]byte, 8), digest...), salt...)
		h := chip.Hash(s.Hash, mp)
		db := make([]byte, emLen-hlen-1)
		db[len(db)-len(salt)-1] = 1
		copy(db[len(db)-len(salt):], salt)
		mask := mgf1(s.Hash, h, len(db))
		for i := range db {
			db[i] ^= mask[i]
		}
		db[0] &= 0xFF >> uint(8*emLen-emBits)
		em := append(append(db, h...), 0xBC)
		return rsaPriv(k.RSA, em, (modBits+7)/8)
	case "ecdsa":
		r, sv := chip.ECDSASign(k.Curve, k.D, digest, rng)
		return der.Seq(der.Int(r), der.Int(sv))
	}
	panic("scheme")
}

func rsaPriv(k *RSAKey, em []byte, outLen int) []byte {
	m := new(big.Int).SetBytes(em)
	s := new(big.Int).Exp(m, k.D, k.N)
	out := make([]byte, outLen)
	s.FillBytes(out)
	return out
}

// Verify is the issuer's own verifier (oracle for signature-region mutations).
func (k *Key) Verify(s Scheme, msg, sig []byte) bool {
	digest := chip.Hash(s.Hash, msg)
	switch s.Kind {
	case "ecdsa":
		ts, err := chip.ParseTLVs(sig)
		if err != nil || len(ts) != 1 || ts[0].Tag != 0x30 {
			return false
		}
		in, err := chip.ParseTLVs(ts[0].Val)
		if err != nil || len(in) != 2 || in[0].Tag != 2 || in[1].Tag != 2 {
			return false
		}
		return chip.ECDSAVerify(k.Curve, k.X, k.Y, digest, new(big.Int).SetBytes(in[0].Val), new(big.Int).SetBytes(in[1].Val))
	}
	// RSA: recompute deterministic encodings where possible
	klen := (k.RSA.N.BitLen() + 7) / 8
	if len(sig) != klen {
		return false
	}
	m := new(big.Int).Exp(new(big.Int).SetBytes(sig), big.NewInt(int64(k.RSA.E)), k.RSA.N)
	em := make([]byte, klen)
	m.FillBytes(em)
	if s.Kind == "pkcs1" {
		di := der.Seq(der.Seq(der.OID(hashOID[s.Hash]...), der.Null()), der.Octet(digest))
		exp := make([]byte, klen)
		exp[1] = 1
		for i := 2; i < klen-len(di)-1; i++ {
			exp[i] = 0xFF
		}
		copy(exp[klen-len(di):], di)
		return string(exp) == string(em)
	}
	// PSS verify
	modBits := k.RSA.N.BitLen()
	emBits := modBits - 1
	emLen := (emBits + 7) / 8
	if klen > emLen {
		if em[0] != 0 {
			return false
		}
		em = em[1:]
	}
	hlen := len(digest)
	if em[len(em)-1] != 0xBC || emLen < 2*hlen+2 {
		return false
	}
	db := append([]byte{}, em[:emLen-hlen-1]...)
	h := em[emLen-hlen-1 : emLen-1]
	if db[0]&^(0xFF>>uint(8*emLen-emBits)) != 0 {
		return false
	}
	mask := mgf1(s.Hash, h, len(db))
	for i := range db {
		db[i] ^= mask[i]
	}
	db[0] &= 0xFF >> uint(8*emLen-emBits)
	i := 0
	for i < len(db) && db[i] == 0 {
		i++
	}
	if i >= len(db) || db[i] != 1 {
		return false
	}
	salt := db[i+1:]
	mp := append(append(make([]byte, 8), digest...), salt...)
	return string(chip.Hash(s.Hash, mp)) == string(h)
}
