// Package store is the simulated blob store between capture (DocumentEx.ToCbor) and offline
// verification (verifier.Verify): bytes at rest that can rot, tear, be extended, be swapped,
// or be rewritten by a byzantine party that recomputes every envelope checksum.
// It contains its own minimal CBOR writer so that the byzantine rewrite does not depend on gmrtd.
package store

import (
	"crypto/sha256"
	"encoding/binary"
)

// ---- minimal CBOR writer (RFC 8949 definite lengths)

func head(major byte, n uint64) []byte {
	m := major << 5
	switch {
	case n < 24:
		return []byte{m | byte(n)}
	case n < 1<<8:
		return []byte{m | 24, byte(n)}
	case n < 1<<16:
		b := []byte{m | 25, 0, 0}
		binary.BigEndian.PutUint16(b[1:], uint16(n))
		return b
	case n < 1<<32:
		b := []byte{m | 26, 0, 0, 0, 0}
		binary.BigEndian.PutUint32(b[1:], uint32(n))
		return b
	}
	b := []byte{m | 27, 0, 0, 0, 0, 0, 0, 0, 0}
	binary.BigEndian.PutUint64(b[1:], n)
	return b
}

func Uint(n uint64) []byte { return head(0, n) }
func Int(n int64) []byte {
	if n >= 0 {
		return head(0, uint64(n))
	}
	return head(1, uint64(-1-n))
}
func Bytes(b []byte) []byte { return append(head(2, uint64(len(b))), b...) }
func Text(s string) []byte  { return append(head(3, uint64(len(s))), s...) }
func Array(items ...[]byte) []byte {
	out := head(4, uint64(len(items)))
	for _, i := range items {
		out = append(out, i...)
	}
	return out
}
func IntArray(v []int) []byte {
	var items [][]byte
	for _, x := range v {
		items = append(items, Int(int64(x)))
	}
	return Array(items...)
}

// KV is one map entry with a text key.
type KV struct {
	K string
	V []byte // encoded value; nil = omit
}

func Map(kvs ...KV) []byte {
	n := 0
	for _, kv := range kvs {
		if kv.V != nil {
			n++
		}
	}
	out := head(5, uint64(n))
	for _, kv := range kvs {
		if kv.V != nil {
			out = append(out, Text(kv.K)...)
			out = append(out, kv.V...)
		}
	}
	return out
}

// Envelope wraps a payload the way gmrtd's blobs are wrapped: {magic, version, sha256, payload}.
func Envelope(magic string, version uint64, payload []byte) []byte {
	d := sha256.Sum256(payload)
	return Map(KV{"magic", Text(magic)}, KV{"version", Uint(version)}, KV{"sha256", Bytes(d[:])}, KV{"payload", Bytes(payload)})
}

// ---- the document model the byzantine store writes

var FileKeys = []string{"cardAccess", "cardSecurity", "dir", "com", "sod", "dg1", "dg2", "dg7", "dg11", "dg12", "dg13", "dg14", "dg15", "dg16"}

type PaceCam struct {
	PaceOid                                                                            []int
	ParameterId                                                                        int
	Nonce, TermMapPri, TermMapPub, ChipMapPub, TermKaPri, TermKaPub, ChipKaPub, EcadIC []byte
}

type CA struct{ TermPri, TermPubKey, SmRapdu, SmSsc []byte }

type AA struct {
	Algorithm        []int
	Nonce, Signature []byte
}

type Evidence struct {
	PaceCam *PaceCam
	CA      *CA
	AA      *AA
}

func optBytes(b []byte) []byte {
	if len(b) == 0 {
		return nil
	}
	return Bytes(b)
}

// EncodeDocument writes the inner "gmrtd-raw-doc" blob.
func EncodeDocument(files map[string][]byte) []byte {
	var kvs []KV
	for _, k := range FileKeys {
		if f, ok := files[k]; ok && len(f) > 0 {
			kvs = append(kvs, KV{k, Bytes(f)})
		}
	}
	return Envelope("gmrtd-raw-doc", 1, Map(kvs...))
}

func EncodeEvidence(ev Evidence) []byte {
	var kvs []KV
	if p := ev.PaceCam; p != nil {
		kvs = append(kvs, KV{"paceCam", Map(KV{"paceOid", IntArray(p.PaceOid)}, KV{"parameterId", Int(int64(p.ParameterId))}, KV{"nonce", Bytes(p.Nonce)}, KV{"termMapPri", Bytes(p.TermMapPri)},
			KV{"termMapPub", Bytes(p.TermMapPub)}, KV{"chipMapPub", Bytes(p.ChipMapPub)}, KV{"termKaPri", Bytes(p.TermKaPri)}, KV{"termKaPub", Bytes(p.TermKaPub)}, KV{"chipKaPub", Bytes(p.ChipKaPub)}, KV{"ecadIC", Bytes(p.EcadIC)})})
	}
	if c := ev.CA; c != nil {
		kvs = append(kvs, KV{"chipAuth", Map(KV{"termPri", optBytes(c.TermPri)}, KV{"termPubKey", optBytes(c.TermPubKey)}, KV{"smRapdu", optBytes(c.SmRapdu)}, KV{"smSsc", optBytes(c.SmSsc)})})
	}
	if a := ev.AA; a != nil {
		kvs = append(kvs, KV{"activeAuth", Map(KV{"algorithm", IntArray(a.Algorithm)}, KV{"nonce", Bytes(a.Nonce)}, KV{"signature", Bytes(a.Signature)})})
	}
	return Envelope("gmrtd-chip-auth-evidence", 2, Map(kvs...))
}

// EncodeVerifiable writes the outer "gmrtd-verifiable-doc" blob with every checksum recomputed.
func EncodeVerifiable(files map[string][]byte, ev Evidence) []byte {
	return Envelope("gmrtd-verifiable-doc", 1, Map(KV{"document", Bytes(EncodeDocument(files))}, KV{"chipAuthEvidence", Bytes(EncodeEvidence(ev))}))
}
