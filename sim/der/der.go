// Package der is a minimal DER writer (own code: the simulated issuer must not depend on gmrtd/cms).
package der

import (
	"bytes"
	"math/big"
	"sort"
	"time"
)

func Len(n int) []byte {
	switch {
	case n < 0x80:
		return []byte{byte(n)}
	case n < 0x100:
		return []byte{0x81, byte(n)}
	case n < 0x10000:
		return []byte{0x82, byte(n >> 8), byte(n)}
	case n < 0x1000000:
		return []byte{0x83, byte(n >> 16), byte(n >> 8), byte(n)}
	}
	return []byte{0x84, byte(n >> 24), byte(n >> 16), byte(n >> 8), byte(n)}
}

// TLV with a single-octet identifier.
func TLV(tag byte, content []byte) []byte {
	out := append([]byte{tag}, Len(len(content))...)
	return append(out, content...)
}

func cat(parts [][]byte) []byte {
	var b []byte
	for _, p := range parts {
		b = append(b, p...)
	}
	return b
}

func Seq(parts ...[]byte) []byte { return TLV(0x30, cat(parts)) }

// Set sorts its elements (DER SET OF).
func Set(parts ...[]byte) []byte {
	cp := append([][]byte{}, parts...)
	sort.Slice(cp, func(i, j int) bool { return bytes.Compare(cp[i], cp[j]) < 0 })
	return TLV(0x31, cat(cp))
}

// SetUnsorted keeps the given order (BER SET).
func SetUnsorted(parts ...[]byte) []byte { return TLV(0x31, cat(parts)) }

func Int(v *big.Int) []byte {
	if v.Sign() < 0 {
		panic("der.Int: negative")
	}
	b := v.Bytes()
	if len(b) == 0 {
		b = []byte{0}
	}
	if b[0]&0x80 != 0 {
		b = append([]byte{0}, b...)
	}
	return TLV(0x02, b)
}

func IntI(v int64) []byte { return Int(big.NewInt(v)) }

func OIDValue(arcs []int) []byte {
	out := []byte{byte(arcs[0]*40 + arcs[1])}
	for _, a := range arcs[2:] {
		var tmp []byte
		tmp = append(tmp, byte(a&0x7F))
		a >>= 7
		for a > 0 {
			tmp = append([]byte{byte(a&0x7F) | 0x80}, tmp...)
			a >>= 7
		}
		out = append(out, tmp...)
	}
	return out
}

func OID(arcs ...int) []byte { return TLV(0x06, OIDValue(arcs)) }

func Octet(b []byte) []byte { return TLV(0x04, b) }

func BitString(b []byte) []byte { return TLV(0x03, append([]byte{0}, b...)) }

// BitStringBits encodes named bits (bit 0 = most significant), trimming trailing zero bits.
func BitStringBits(bits ...int) []byte {
	maxBit := -1
	for _, b := range bits {
		if b > maxBit {
			maxBit = b
		}
	}
	if maxBit < 0 {
		return TLV(0x03, []byte{0})
	}
	n := maxBit/8 + 1
	buf := make([]byte, n)
	for _, b := range bits {
		buf[b/8] |= 0x80 >> uint(b%8)
	}
	unused := 7 - maxBit%8
	return TLV(0x03, append([]byte{byte(unused)}, buf...))
}

func Null() []byte { return []byte{0x05, 0x00} }

func Bool(v bool) []byte {
	if v {
		return []byte{0x01, 0x01, 0xFF}
	}
	return []byte{0x01, 0x01, 0x00}
}

func Printable(s string) []byte { return TLV(0x13, []byte(s)) }
func UTF8(s string) []byte      { return TLV(0x0C, []byte(s)) }
func IA5(s string) []byte       { return TLV(0x16, []byte(s)) }

func UTCTime(t time.Time) []byte { return TLV(0x17, []byte(t.UTC().Format("060102150405Z"))) }
func GenTime(t time.Time) []byte { return TLV(0x18, []byte(t.UTC().Format("20060102150405Z"))) }

// Time picks UTCTime for years < 2050 (RFC 5280).
func Time(t time.Time) []byte {
	if y := t.UTC().Year(); y >= 1950 && y < 2050 {
		return UTCTime(t)
	}
	return GenTime(t)
}

// Explicit wraps content in a constructed context tag [n].
func Explicit(n int, content []byte) []byte { return TLV(0xA0|byte(n), content) }

// ImplicitPrim is a primitive context tag [n].
func ImplicitPrim(n int, content []byte) []byte { return TLV(0x80|byte(n), content) }

// ImplicitCons re-tags a constructed encoding (e.g. a SEQUENCE/SET) as context [n].
func ImplicitCons(n int, inner []byte) []byte {
	// inner is a full TLV; replace its identifier octet
	out := append([]byte{}, inner...)
	out[0] = 0xA0 | byte(n)
	return out
}

// Indefinite re-encodes a constructed TLV with indefinite length (BER).
func Indefinite(tag byte, content []byte) []byte {
	out := append([]byte{tag, 0x80}, content...)
	return append(out, 0, 0)
}
