// instr inserts cooperative yield points into a SCRATCH COPY of gmrtd (never /repo itself): a call to vy.Y()
// at the start of every function body and of every loop body of the listed packages, and adds the tiny package
// <copy>/vy that forwards to a hook the simulator sets. This gives the C20 scheduler preemption points inside
// the library's own code (not only at the seams), so interleavings inside e.g. a lazily built cache are reachable.
// usage: instr <copy-root> <pkgdir>...
package main

import (
	"bytes"
	"fmt"
	"go/ast"
	"go/format"
	"go/parser"
	"go/token"
	"os"
	"path/filepath"
	"strings"
)

const vySrc = `// Package vy is added by /verif's instrumenter to a scratch copy of gmrtd only.
package vy

// Hook is set by the simulator; nil outside scheduled runs.
var Hook func()

// Y is a cooperative yield point.
func Y() {
	if h := Hook; h != nil {
		h()
	}
}
`

func yieldStmt() ast.Stmt {
	return &ast.ExprStmt{X: &ast.CallExpr{Fun: &ast.SelectorExpr{X: ast.NewIdent("vyinstr"), Sel: ast.NewIdent("Y")}}}
}

func instrumentBlock(b *ast.BlockStmt) {
	if b == nil {
		return
	}
	b.List = append([]ast.Stmt{yieldStmt()}, b.List...)
}

func main() {
	if len(os.Args) < 3 {
		fmt.Fprintln(os.Stderr, "usage: instr <copy-root> <pkgdir>...")
		os.Exit(2)
	}
	root := os.Args[1]
	if err := os.MkdirAll(filepath.Join(root, "vy"), 0o755); err != nil {
		panic(err)
	}
	if err := os.WriteFile(filepath.Join(root, "vy", "vy.go"), []byte(vySrc), 0o644); err != nil {
		panic(err)
	}
	files, funcs, loops := 0, 0, 0
	for _, dir := range os.Args[2:] {
		ents, err := os.ReadDir(filepath.Join(root, dir))
		if err != nil {
			fmt.Fprintln(os.Stderr, "skip", dir, err)
			continue
		}
		for _, e := range ents {
			name := e.Name()
			if e.IsDir() || !strings.HasSuffix(name, ".go") || strings.HasSuffix(name, "_test.go") {
				continue
			}
			path := filepath.Join(root, dir, name)
			fset := token.NewFileSet()
			f, err := parser.ParseFile(fset, path, nil, parser.ParseComments)
			if err != nil {
				fmt.Fprintln(os.Stderr, "parse", path, err)
				os.Exit(2)
			}
			changed := false
			ast.Inspect(f, func(n ast.Node) bool {
				switch x := n.(type) {
				case *ast.FuncDecl:
					if x.Body != nil && x.Name.Name != "init" {
						instrumentBlock(x.Body)
						funcs++
						changed = true
					}
				case *ast.FuncLit:
					instrumentBlock(x.Body)
					funcs++
					changed = true
				case *ast.ForStmt:
					instrumentBlock(x.Body)
					loops++
					changed = true
				case *ast.RangeStmt:
					instrumentBlock(x.Body)
					loops++
					changed = true
				}
				return true
			})
			if !changed {
				continue
			}
			// add the import
			imp := &ast.ImportSpec{Name: ast.NewIdent("vyinstr"), Path: &ast.BasicLit{Kind: token.STRING, Value: `"github.com/gmrtd/gmrtd/vy"`}}
			gd := &ast.GenDecl{Tok: token.IMPORT, Specs: []ast.Spec{imp}}
			f.Decls = append([]ast.Decl{gd}, f.Decls...)
			var buf bytes.Buffer
			if err := format.Node(&buf, fset, f); err != nil {
				fmt.Fprintln(os.Stderr, "format", path, err)
				os.Exit(2)
			}
			if err := os.WriteFile(path, buf.Bytes(), 0o644); err != nil {
				panic(err)
			}
			files++
		}
	}
	fmt.Printf("instrumented %d files: %d function bodies, %d loop bodies\n", files, funcs, loops)
}
