// genrsa pre-generates the public test RSA key pool used by the simulated issuer and AA chips.
// Run once at design time; the output is committed (sim/pki/rsapool.json). Test keys only.
package main

import (
	"crypto/rand"
	"crypto/rsa"
	"encoding/json"
	"fmt"
	"os"
)

type K struct {
	Bits int    `json:"bits"`
	N    string `json:"n"`
	D    string `json:"d"`
	E    int    `json:"e"`
}

func main() {
	sizes := []int{1024, 1024, 1024, 1280, 1536, 1536, 2048, 2048, 2048, 2048, 3072, 3072, 4096, 4096, 1027, 1030, 2045, 2047}
	var out []K
	for _, b := range sizes {
		k, err := rsa.GenerateKey(rand.Reader, b)
		if err != nil {
			fmt.Fprintln(os.Stderr, b, err)
			continue
		}
		out = append(out, K{Bits: k.N.BitLen(), N: k.N.Text(16), D: k.D.Text(16), E: k.E})
		fmt.Fprintln(os.Stderr, "generated", b, k.N.BitLen())
	}
	enc := json.NewEncoder(os.Stdout)
	enc.SetIndent("", " ")
	enc.Encode(out)
}
