package main

import (
	"os"

	"verif/sim/core"
	"verif/sim/engines"
)

func main() {
	engines.RegisterAll()
	if len(os.Args) > 2 && os.Args[1] == "sched-child" {
		os.Exit(engines.SchedChildMain(os.Args[2]))
	}
	os.Exit(core.Main(os.Args[1:]))
}
