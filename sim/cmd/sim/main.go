package main

import (
	"os"

	"verif/sim/core"
	"verif/sim/engines"
)

func main() {
	engines.RegisterAll()
	os.Exit(core.Main(os.Args[1:]))
}
