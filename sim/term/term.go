// Package term holds the terminal-side seams of the simulation: the link (Transceiver) with
// its fault plan, the seeded crypto/rand.Reader, and the slog handler used as step counter.
package term

import (
	"bytes"
	"context"
	"crypto/rand"
	"crypto/sha256"
	"encoding/binary"
	"encoding/hex"
	"fmt"
	"io"
	"log/slog"
	"sync/atomic"

	"verif/sim/chip"
	"verif/sim/core"
)

// ---- slog seam: counts calls (deterministic step counter), drops everything.

var SlogSteps atomic.Int64

// YieldHook, when set, is called from inside gmrtd at every slog call (scheduler yield point).
var YieldHook func(site string)

type countingHandler struct{}

func (countingHandler) Enabled(context.Context, slog.Level) bool {
	if h := YieldHook; h != nil {
		// scheduled run: no shared counter here (an atomic would order the workers for the race detector)
		h("slog")
		return false
	}
	if n := SlogSteps.Add(1); StepDeadline > 0 && n > StepDeadline {
		// deterministic step bound: a library call that keeps logging without ever returning is cut here
		// (the panic is recovered by whoever armed the deadline and reported as non-termination)
		StepDeadline = 0
		panic(StepBoundExceeded)
	}
	return false
}

// StepDeadline, when > 0, is the absolute value of SlogSteps beyond which the logging seam aborts the call.
var StepDeadline int64

// StepBoundExceeded is the panic value used for that.
const StepBoundExceeded = "verif: logging-step bound exceeded (the call does not terminate within the step budget)"

// ArmStepBound sets the deadline n steps from now; DisarmStepBound clears it.
func ArmStepBound(n int64) { StepDeadline = SlogSteps.Load() + n }
func DisarmStepBound()     { StepDeadline = 0 }
func (countingHandler) Handle(context.Context, slog.Record) error { return nil }
func (h countingHandler) WithAttrs([]slog.Attr) slog.Handler      { return h }
func (h countingHandler) WithGroup(string) slog.Handler           { return h }

var origRand io.Reader = rand.Reader

// InstallSeams installs the slog handler. Idempotent.
func InstallSeams() { slog.SetDefault(slog.New(countingHandler{})) }

// SetTerminalRandom makes every random draw of the library (RND.IFD, K.IFD, ephemeral keys,
// AA challenge) come from the given stream.
func SetTerminalRandom(r io.Reader) { rand.Reader = r }

func RestoreRandom() { rand.Reader = origRand }

// ---- event log

type EventLog struct {
	h   [32]byte
	seq uint64
}

func (l *EventLog) Add(kind string, parts ...[]byte) {
	s := sha256.New()
	s.Write(l.h[:])
	var b [8]byte
	binary.BigEndian.PutUint64(b[:], l.seq)
	s.Write(b[:])
	s.Write([]byte(kind))
	for _, p := range parts {
		binary.BigEndian.PutUint64(b[:], uint64(len(p)))
		s.Write(b[:])
		s.Write(p)
	}
	copy(l.h[:], s.Sum(nil))
	l.seq++
}

func (l *EventLog) Seq() uint64 { return l.seq }

func (l *EventLog) Fingerprint() string { return hex.EncodeToString(l.h[:12]) }

// ---- link with fault plan

// Fault is one entry of a fault plan: at exchange index At, apply Kind.
type Fault struct {
	At   int    `json:"at"`
	Kind string `json:"kind"`
	A    int    `json:"a,omitempty"`
	B    int    `json:"b,omitempty"`
}

func (f Fault) String() string { return fmt.Sprintf("%s@%d(%d,%d)", f.Kind, f.At, f.A, f.B) }

// Link is the simulated contactless link between the terminal and the chip.
type Link struct {
	Chip         *chip.Chip
	Faults       []Fault
	Log          *EventLog
	Out          *core.Outcome
	N            int
	MaxExchanges int // deterministic step bound; exceeded => Overrun
	Overrun      bool
	dead         bool
	history      [][]byte
	stale        []byte
	haveStale    bool
	Cmds         [][]byte // raw commands as sent by the terminal
	Delivered    [][]byte // responses as delivered to the terminal
	Genuine      [][]byte // responses as produced by the chip (nil when the chip never saw the command)
	FaultAt      map[int]string
	// Hook, when set, runs before each exchange (scheduler yield point / invariants).
	Hook func(k int)
	// RespHook, when set, is an on-path adversary: it may replace the response of exchange k.
	RespHook func(k int, cmd, resp []byte) []byte
	// CmdHook, when set, may answer instead of the chip (impostor); ok=false passes the command on.
	CmdHook func(k int, cmd []byte) (resp []byte, ok bool)
}

func NewLink(c *chip.Chip, faults []Fault, out *core.Outcome) *Link {
	return &Link{Chip: c, Faults: faults, Log: &EventLog{}, Out: out, MaxExchanges: 20000, FaultAt: map[int]string{}}
}

func (l *Link) fire(kind string) {
	if l.Out != nil {
		l.Out.Fault(kind)
	}
	l.FaultAt[l.N] = kind
}

// Transceive implements iso7816.Transceiver. The chip sees encodedData (the raw command).
func (l *Link) Transceive(cla, ins, p1, p2 int, data []byte, le int, encodedData []byte) []byte {
	k := l.N
	if l.Hook != nil {
		l.Hook(k)
	}
	if k >= l.MaxExchanges {
		l.Overrun = true
		l.N++
		return nil
	}
	cmd := bytes.Clone(encodedData)
	l.Cmds = append(l.Cmds, cmd)
	var fs []Fault
	for _, f := range l.Faults {
		if f.At == k {
			fs = append(fs, f)
		}
	}
	var resp []byte
	processed := true
	if l.dead {
		processed = false
	}
	for _, f := range fs {
		switch f.Kind {
		case "chip_power_cycle":
			l.Chip.PowerCycle()
			l.fire(f.Kind)
		case "cmd_lost":
			processed = false
			l.fire(f.Kind)
		case "link_dead_from":
			l.dead = true
			processed = false
			l.fire(f.Kind)
		}
	}
	if processed && l.CmdHook != nil {
		if r, ok := l.CmdHook(k, cmd); ok {
			resp, processed = r, false
			l.fire("impostor_answer")
		}
	}
	if processed {
		resp = l.Chip.Transceive(cmd)
	}
	genuine := bytes.Clone(resp)
	if l.RespHook != nil {
		if r := l.RespHook(k, cmd, resp); !bytes.Equal(r, resp) {
			resp = r
			l.fire("mitm_edit")
		}
	}
	if l.haveStale {
		resp = l.stale
		l.haveStale = false
		l.fire("resp_stale")
	}
	for _, f := range fs {
		switch f.Kind {
		case "resp_lost":
			resp = nil
			l.fire(f.Kind)
		case "resp_truncate":
			// A >= 0: keep A bytes; A < 0: drop -A bytes from the end
			n := f.A
			if n < 0 {
				n = len(resp) + n
			}
			if n >= 0 && n < len(resp) {
				resp = bytes.Clone(resp[:n])
				l.fire(f.Kind)
			}
		case "resp_garble":
			// A >= 0: position from the start; A < 0: from the end
			pos := f.A
			if pos < 0 {
				pos = len(resp) + pos
			}
			if pos >= 0 && pos < len(resp) {
				resp = bytes.Clone(resp)
				m := byte(f.B)
				if m == 0 {
					m = 1
				}
				resp[pos] ^= m
				l.fire(f.Kind)
			}
		case "resp_oversize":
			extra := bytes.Repeat([]byte{0xA5}, max(1, f.A))
			switch f.B % 3 {
			case 0:
				resp = append(extra, resp...)
			case 1:
				if len(resp) >= 2 {
					resp = append(append(bytes.Clone(resp[:len(resp)-2]), extra...), resp[len(resp)-2:]...)
				} else {
					resp = append(bytes.Clone(resp), extra...)
				}
			case 2:
				resp = append(bytes.Clone(resp), extra...)
			}
			l.fire(f.Kind)
		case "resp_status":
			resp = []byte{byte(f.A >> 8), byte(f.A)}
			l.fire(f.Kind)
		case "resp_replay":
			// A >= 0: response of exchange A; A < 0: -A exchanges ago
			j := f.A
			if j < 0 {
				j = len(l.history) + j
			}
			if j >= 0 && j < len(l.history) {
				resp = bytes.Clone(l.history[j])
				l.fire(f.Kind)
			}
		case "resp_swap":
			// deliver the previous genuine response now and this one at the next exchange
			if len(l.history) > 0 {
				l.stale, l.haveStale = genuine, true
				resp = bytes.Clone(l.history[len(l.history)-1])
				l.fire(f.Kind)
			}
		case "do_drop", "do_dup", "do_reorder", "do_nonminimal_len", "sw_mismatch":
			if r, ok := EditSM(resp, f.Kind, f.A); ok {
				resp = r
				l.fire(f.Kind)
			}
		}
	}
	l.history = append(l.history, genuine)
	l.Genuine = append(l.Genuine, genuine)
	l.Delivered = append(l.Delivered, bytes.Clone(resp))
	l.Log.Add("x", cmd, genuine, resp)
	l.N++
	return resp
}

// EditSM applies a structure-aware edit to a protected response (DOs followed by SW).
func EditSM(resp []byte, kind string, a int) ([]byte, bool) {
	if len(resp) < 4 {
		return nil, false
	}
	body, swb := resp[:len(resp)-2], resp[len(resp)-2:]
	ts, err := chip.ParseTLVs(body)
	if err != nil || len(ts) == 0 {
		return nil, false
	}
	var out []byte
	switch kind {
	case "do_drop":
		i := ((a % len(ts)) + len(ts)) % len(ts)
		for j, t := range ts {
			if j != i {
				out = append(out, t.Raw...)
			}
		}
	case "do_dup":
		i := ((a % len(ts)) + len(ts)) % len(ts)
		for j, t := range ts {
			out = append(out, t.Raw...)
			if j == i {
				out = append(out, t.Raw...)
			}
		}
	case "do_reorder":
		if len(ts) < 2 {
			return nil, false
		}
		i := ((a % (len(ts) - 1)) + (len(ts) - 1)) % (len(ts) - 1)
		ts[i], ts[i+1] = ts[i+1], ts[i]
		for _, t := range ts {
			out = append(out, t.Raw...)
		}
	case "do_nonminimal_len":
		i := ((a % len(ts)) + len(ts)) % len(ts)
		for j, t := range ts {
			if j == i && len(t.Val) < 0x80 {
				out = append(out, byte(t.Tag), 0x81, byte(len(t.Val)))
				out = append(out, t.Val...)
			} else {
				out = append(out, t.Raw...)
			}
		}
	case "sw_mismatch":
		out = append(out, body...)
		s := []byte{swb[0], swb[1] ^ byte(a|1)}
		return append(out, s...), true
	default:
		return nil, false
	}
	return append(out, swb...), true
}
