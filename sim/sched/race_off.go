//go:build !race

package sched

const RaceEnabled = false

func raceDisable()    {}
func raceEnable()     {}
func RaceErrors() int { return 0 }
