// Package sched is SimSched: a seeded cooperative scheduler for caller goroutines of gmrtd.
// Workers are real goroutines; exactly one is released at a time and runs until it parks at the
// next yield point the harness owns (before/after each API call, inside Transceive, inside
// ReaderStatus.Status, inside the slog handler, inside the crypto/rand.Reader and CertPool
// proxies - all of which sit inside gmrtd's critical sections) or finishes. Who runs next is a
// recorded decision, so a schedule replays exactly.
package sched

import (
	"bytes"
	"reflect"
	"runtime"
	"strconv"
	"strings"
	"sync"
	"time"
	"unsafe"

	"verif/sim/core"
)

// Op is one public API call of a worker's script.
type Op struct {
	ID    int
	Name  string
	Guard func() bool // readiness probe (e.g. TryLock on the object's mutex); nil = always enabled
	// Eager: the op may be started although Guard says the object's mutex is taken. In the library as it is the call then
	// blocks inside (found by stack inspection) and is woken, deterministically, at the first scheduling point at which
	// Guard holds again; if the call does not use that mutex it simply runs inside the other call's critical section.
	Eager bool
	// NotBefore: the op is not started before this many yield points of the whole run have passed (unless nothing else
	// can run): spreads the start of a call uniformly over another worker's long call instead of near its beginning.
	NotBefore int
	Call      func() string
}

type worker struct {
	id     int
	ops    []*Op
	resume chan struct{}
	state  int // 0 parked, 1 running, 2 done, 3 blocked inside gmrtd
	site   string
	gid    int64
	curOp  *Op
	opIdx  int // index of the next op not yet started (valid when parked at "before")
	atOp   bool
	quiet  int // > 0: yield points are passed without parking (result post-processing after the library call returned)
}

type event struct {
	w    *worker
	kind string // park | done
	site string
}

// Record of one completed call, stamped with global sequence numbers.
type Call struct {
	Worker int
	Op     *Op
	Invoke int
	Return int
	Output string
}

type Sched struct {
	workers  []*worker
	events   chan event
	cur      *worker
	rng      *core.Rng
	Plan     []int // replay: recorded picks (worker ids); nil = generate from rng
	Picks    []int
	Sites    []string
	seq      int
	Calls    []Call
	mu       sync.Mutex // protects Calls/seq bookkeeping done by workers (under raceDisable)
	KeepBias int        // probability (per mille) to keep the running worker at a yield point
	Deadlock string
	Blocked  int // times a worker was found blocked inside the library
	Yields   int
	Contend  int // decisions at which a guarded op was not enabled (lock contention observed)
	running  bool
	opEnded  bool // some call has ended since the last look at eagerly started, blocked calls
	tick     *time.Ticker
	Trace    []string
	wg       sync.WaitGroup
}

// Quiet runs f on the calling worker with its yield points switched off. Used for the harness's own post-processing of
// a call's result (fingerprinting through instrumented library functions): the object's mutex is released by then, and
// scheduling decisions between that release and the end of the op would depend on when a woken waiter gets the processor.
//
//go:norace
func (s *Sched) Quiet(f func()) {
	var w *worker
	if s != nil && s.running {
		raceDisable()
		g := curGID()
		for _, x := range s.workers {
			if x.gid == g {
				w = x
			}
		}
		if w != nil {
			w.quiet++
		}
		raceEnable()
	}
	f()
	if w != nil {
		raceDisable()
		w.quiet--
		raceEnable()
	}
}

// TraceLimit: number of trace entries kept (diagnostics).
var TraceLimit = 40

func New(rng *core.Rng, plan []int) *Sched {
	return &Sched{events: make(chan event, 64), rng: rng, Plan: plan, KeepBias: 950}
}

func (s *Sched) AddWorker(ops []*Op) {
	s.workers = append(s.workers, &worker{id: len(s.workers), ops: ops, resume: make(chan struct{})})
}

// parseGID extracts N from "goroutine N [state]:..." without regexp (its pooled state would look
// like a data race to the detector when used under hidden synchronisation).
//
//go:norace
func parseGID(b []byte) int64 {
	const p = "goroutine "
	if len(b) < len(p) || string(b[:len(p)]) != p {
		return -1
	}
	var v int64
	i := len(p)
	for i < len(b) && b[i] >= '0' && b[i] <= '9' {
		v = v*10 + int64(b[i]-'0')
		i++
	}
	if i == len(p) {
		return -1
	}
	return v
}

//go:norace
func curGID() int64 {
	var buf [64]byte
	n := runtime.Stack(buf[:], false)
	return parseGID(buf[:n])
}

// Current returns the id of the op the calling goroutine is executing (-1 when not a worker).
//
//go:norace
func (s *Sched) CurrentOp() int {
	raceDisable()
	defer raceEnable()
	if s == nil || !s.running || s.cur == nil || s.cur.curOp == nil {
		return -1
	}
	return s.cur.curOp.ID
}

// Yield parks the calling worker at a yield point until the scheduler releases it again.
// It is a no-op when called outside a scheduled run or by a non-worker goroutine.
//
//go:norace
func (s *Sched) Yield(site string) {
	raceDisable()
	defer raceEnable()
	if s == nil || !s.running {
		return
	}
	w := s.cur
	if w == nil || w.gid != curGID() {
		// a goroutine that is not the released worker (e.g. a blocked worker that just woke up)
		w = nil
		g := curGID()
		for _, x := range s.workers {
			if x.gid == g {
				w = x
			}
		}
		if w == nil {
			return
		}
	}
	if w.quiet > 0 {
		return
	}
	s.events <- event{w, "park", site}
	<-w.resume
}

//go:norace
func (s *Sched) stamp() int {
	s.mu.Lock() // an eagerly started call can finish while the call that held the mutex is still on its way to its next park
	defer s.mu.Unlock()
	s.seq++
	return s.seq
}

//go:norace
func (w *worker) park(s *Sched, site string) {
	raceDisable()
	s.events <- event{w, "park", site}
	<-w.resume
	raceEnable()
}

//go:norace
func (w *worker) begin(s *Sched, i int, op *Op) int {
	raceDisable()
	w.opIdx, w.atOp = i, true
	s.events <- event{w, "park", "before:" + op.Name}
	<-w.resume
	w.atOp = false
	w.curOp = op
	inv := s.stamp()
	raceEnable()
	return inv
}

//go:norace
func (w *worker) end(s *Sched, op *Op, inv int, out string) {
	raceDisable()
	ret := s.stamp()
	s.mu.Lock()
	s.Calls = append(s.Calls, Call{Worker: w.id, Op: op, Invoke: inv, Return: ret, Output: out})
	s.mu.Unlock()
	w.curOp = nil
	raceEnable()
}

//go:norace
func (w *worker) finish(s *Sched) {
	raceDisable()
	s.events <- event{w, "done", ""}
	raceEnable()
}

//go:norace
func (w *worker) setGID() { w.gid = curGID() }

func (w *worker) body(s *Sched) {
	// visible to the race detector on purpose: everything a worker did happens-before the end of Run
	defer s.wg.Done()
	w.setGID()
	w.park(s, "start")
	for i, op := range w.ops {
		inv := w.begin(s, i, op)
		out := op.Call()
		w.end(s, op, inv, out)
	}
	w.finish(s)
}

// wait reasons that are specific to sync primitives ("[semacquire" is NOT listed: a goroutine that starts a GC
// cycle or stops the world waits in a runtime semaphore for a moment and is not blocked in the library)
var blockedStates = []string{"[sync.Mutex.Lock", "[sync.RWMutex.", "[sync.WaitGroup.Wait", "[sync.Cond.Wait"}

// blockedInLibrary inspects the goroutine dump: is worker w blocked in a sync primitive?
func blockedInLibrary(w *worker) bool {
	buf := make([]byte, 1<<20)
	n := runtime.Stack(buf, true)
	for _, g := range bytes.Split(buf[:n], []byte("\n\n")) {
		if parseGID(g) != w.gid {
			continue
		}
		line := g
		if i := bytes.IndexByte(g, '\n'); i > 0 {
			line = g[:i]
		}
		for _, st := range blockedStates {
			if bytes.Contains(line, []byte(st)) {
				return true
			}
		}
		return false
	}
	return false
}

// Run executes all workers to completion under the schedule. It must be called from the
// scheduler goroutine (the caller); it returns when every worker is done or a deadlock is detected.
func (s *Sched) Run() {
	s.running = true
	defer func() { s.running = false }()
	s.tick = time.NewTicker(30 * time.Millisecond)
	defer s.tick.Stop()
	s.wg.Add(len(s.workers))
	defer func() {
		if s.Deadlock == "" {
			s.wg.Wait() // every worker finished; on a deadlock the workers stay parked and the run is reported as such
		}
	}()
	// worker goroutines are started with the detector watching, so that everything the set-up
	// wrote happens-before every worker; only the hand-offs below are hidden from it.
	for _, w := range s.workers {
		w.state = 1
		s.cur = w
		go w.body(s)
		raceDisable()
		s.await(w)
		raceEnable()
	}
	raceDisable()
	defer raceEnable()
	s.cur = nil
	step := 0
	for {
		// events of workers that parked by themselves (a blocked call that woke up reaches its next yield point on its own)
		for drained := false; !drained; {
			select {
			case ev := <-s.events:
				s.note(ev)
			default:
				drained = true
			}
		}
		// Eagerly started calls blocked on their object's mutex. That mutex is held for a whole call, so it can only have
		// been released where some call ended; there (and only there) the stacks are inspected until the situation is
		// stable: a waiter that got the mutex runs to its next yield point and is awaited; if the mutex is free and a
		// waiter is still shown as blocked, the runtime has not scheduled it yet and we wait for it. This makes the
		// hand-over independent of the machine's timing.
		if s.opEnded {
			s.opEnded = false
			deadline := time.Now().Add(3 * time.Second)
			for {
				progressed, waiters, free := false, 0, false
				for _, w := range s.workers {
					op := w.curOp // snapshot: a waiter that wakes right now finishes its call concurrently and clears the field
					if w.state != 3 || op == nil || !op.Eager || op.Guard == nil {
						continue
					}
					if !blockedInLibrary(w) {
						s.trace("woke-eager:" + strconv.Itoa(w.id))
						w.state = 1
						s.await(w)
						progressed = true
						continue
					}
					waiters++
					if op.Guard() {
						free = true
					}
				}
				if progressed {
					continue
				}
				if waiters == 0 || !free || time.Now().After(deadline) {
					break
				}
				time.Sleep(200 * time.Microsecond)
			}
		}
		// wake-ups of previously blocked workers
		for _, w := range s.workers {
			if op := w.curOp; w.state == 3 && op != nil && op.Eager && op.Guard != nil {
				continue // handled below, at the points where the object's mutex can have been released
			}
			if w.state == 3 && !blockedInLibrary(w) {
				s.trace("woke:" + strconv.Itoa(w.id))
				w.state = 1
				s.await(w)
			}
		}
		var enabled, delayed []*worker
		alive := 0
		contended := false
		for _, w := range s.workers {
			if w.state == 2 {
				continue
			}
			alive++
			if w.state != 0 {
				continue
			}
			if w.atOp {
				op := w.ops[w.opIdx]
				if op.Guard != nil && !op.Eager && !op.Guard() {
					contended = true
					continue
				}
				if op.NotBefore > s.Yields {
					delayed = append(delayed, w)
					continue
				}
			}
			enabled = append(enabled, w)
		}
		if len(enabled) == 0 {
			enabled = delayed // nothing else can run: the delay is over
		}
		if alive == 0 {
			return
		}
		if contended {
			s.Contend++
		}
		if len(enabled) == 0 {
			// nobody can be released. Before calling it a deadlock, give workers classified as blocked time to
			// show that they were only momentarily waiting (they then park and become schedulable again).
			progressed := false
			for i := 0; i < 100 && !progressed; i++ {
				<-s.tick.C
				for _, w := range s.workers {
					if w.state == 3 && !blockedInLibrary(w) {
						s.trace("woke-late:" + strconv.Itoa(w.id))
						w.state = 1
						s.await(w)
						progressed = true
					}
				}
			}
			if progressed {
				continue
			}
			s.Deadlock = s.describe()
			return
		}
		var pick *worker
		if s.Plan != nil {
			if step < len(s.Plan) {
				for _, w := range enabled {
					if w.id == s.Plan[step] {
						pick = w
					}
				}
			}
			if pick == nil {
				pick = enabled[0] // plan exhausted or diverged (minimised plans): deterministic default
			}
		} else {
			var prev *worker
			if len(s.Picks) > 0 {
				for _, w := range enabled {
					if w.id == s.Picks[len(s.Picks)-1] {
						prev = w
					}
				}
			}
			if prev != nil && s.rng.Intn(1000) < s.KeepBias {
				pick = prev
			} else {
				pick = enabled[s.rng.Intn(len(enabled))]
			}
		}
		step++
		s.Picks = append(s.Picks, pick.id)
		s.Sites = append(s.Sites, pick.site)
		pick.state = 1
		s.cur = pick
		pick.resume <- struct{}{}
		s.await(pick)
	}
}

// await waits until the released worker parks, finishes, or is found blocked inside the library.
func (s *Sched) await(w *worker) {
	for {
		select {
		case ev := <-s.events:
			s.trace("ev:" + strconv.Itoa(ev.w.id) + ":" + ev.kind + ":" + ev.site + "(await " + strconv.Itoa(w.id) + ")")
			s.note(ev)
			if ev.w == w {
				return
			}
		case <-s.tick.C:
			if blockedInLibrary(w) {
				s.trace("blocked:" + strconv.Itoa(w.id))
				w.state = 3
				s.Blocked++
				return
			}
		}
	}
}

// note records a park / done event of a worker.
func (s *Sched) note(ev event) {
	if ev.kind == "done" {
		ev.w.state = 2
		s.opEnded = true
		return
	}
	ev.w.state = 0
	ev.w.site = ev.site
	s.Yields++
	if strings.HasPrefix(ev.site, "before:") {
		s.opEnded = true // the previous call of that worker has returned (or it is its first call)
	}
}

// Describe lists worker states (diagnostics).
func (s *Sched) Describe() string { return s.describe() }

func (s *Sched) describe() string {
	// no fmt here: its pooled printers would look like races when used under hidden synchronisation
	out := "blocked=" + strconv.Itoa(s.Blocked) + " trace=" + strings.Join(s.Trace, ",") + "; "
	for _, w := range s.workers {
		out += "worker " + strconv.Itoa(w.id) + " state=" + strconv.Itoa(w.state) + " site=" + w.site + "; "
	}
	return out
}

// MutexGuard returns a readiness probe for the sync.Mutex field named field of *obj (reached with
// reflect+unsafe from outside the package). The probe only observes (TryLock+Unlock under
// raceDisable); it never provides exclusion. If the field does not exist the guard is nil.
func MutexGuard(obj any, field string) func() bool {
	v := reflect.ValueOf(obj)
	if v.Kind() != reflect.Pointer || v.Elem().Kind() != reflect.Struct {
		return nil
	}
	f := v.Elem().FieldByName(field)
	if !f.IsValid() || f.Type() != reflect.TypeOf(sync.Mutex{}) || !f.CanAddr() {
		return nil
	}
	mu := (*sync.Mutex)(unsafe.Pointer(f.UnsafeAddr()))
	return func() bool {
		if mu.TryLock() {
			mu.Unlock()
			return true
		}
		return false
	}
}

// OnceGuard: readiness probe for a sync.Once: enabled when done, or when nobody is inside Do.
func OnceGuard(o *sync.Once) func() bool {
	t := reflect.TypeOf(sync.Once{})
	mf, ok := t.FieldByName("m")
	if !ok || mf.Type != reflect.TypeOf(sync.Mutex{}) {
		return nil
	}
	mu := (*sync.Mutex)(unsafe.Add(unsafe.Pointer(o), mf.Offset))
	return func() bool {
		if mu.TryLock() {
			mu.Unlock()
			return true
		}
		return false
	}
}

// And combines guards (nil guards are ignored).
func And(gs ...func() bool) func() bool {
	var live []func() bool
	for _, g := range gs {
		if g != nil {
			live = append(live, g)
		}
	}
	if len(live) == 0 {
		return nil
	}
	return func() bool {
		for _, g := range live {
			if !g() {
				return false
			}
		}
		return true
	}
}

func (s *Sched) trace(x string) {
	s.Trace = append(s.Trace, x)
	if len(s.Trace) > TraceLimit {
		s.Trace = s.Trace[len(s.Trace)-TraceLimit:]
	}
}
