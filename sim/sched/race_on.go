//go:build race

package sched

import "runtime"

// With the race detector on, the scheduler's own hand-offs are hidden from it (RaceDisable),
// so two workers that the simulator runs strictly one after another remain concurrent in the
// detector's happens-before graph unless gmrtd's own locks order them.
const RaceEnabled = true

func raceDisable()    { runtime.RaceDisable() }
func raceEnable()     { runtime.RaceEnable() }
func RaceErrors() int { return runtime.RaceErrors() }
