package core

import (
	"encoding/json"
	"fmt"
	"sort"
)

// Violation is one oracle failure found in one run.
type Violation struct {
	Property string `json:"property"`
	Oracle   string `json:"oracle"` // violation class: the minimiser keeps (Property, Oracle) fixed
	Sig      string `json:"sig"`    // specific identification of the failing input / call site (known-findings key)
	Detail   string `json:"detail"`
}

// Outcome is what one simulated run reports.
type Outcome struct {
	Key         string         `json:"k,omitempty"`  // distinctness key by the engine's stated rule ("" = trivial)
	Violations  []Violation    `json:"v,omitempty"`  // all properties; the check filters by its own id
	Faults      map[string]int `json:"f,omitempty"`  // fault kinds that actually fired
	Probes      map[string]int `json:"p,omitempty"`  // rare-condition probes hit
	Exchanges   int            `json:"x,omitempty"`  // simulated exchanges (= simulated time ticks)
	Fingerprint string         `json:"fp,omitempty"` // hash of canonical event log
	Discarded   string         `json:"d,omitempty"`  // reason if the run was discarded before oracles
}

func (o *Outcome) Fault(kind string) {
	if o.Faults == nil {
		o.Faults = map[string]int{}
	}
	o.Faults[kind]++
}

func (o *Outcome) Probe(name string) {
	if o.Probes == nil {
		o.Probes = map[string]int{}
	}
	o.Probes[name]++
}

func (o *Outcome) Violate(prop, oracle, sig, format string, a ...any) {
	o.Violations = append(o.Violations, Violation{Property: prop, Oracle: oracle, Sig: sig, Detail: fmt.Sprintf(format, a...)})
}

// Engine generates and executes simulated runs.
type Engine interface {
	Name() string
	// Gen yields the cases of (property, tier, seed) in a deterministic order; cheap to call.
	// Cases must marshal to JSON and be decodable by Decode.
	Gen(prop, tier string, seed uint64, yield func(c any) bool)
	Decode(raw json.RawMessage) (any, error)
	// Run executes one case: a pure function of the case and the code under test.
	Run(prop string, c any) *Outcome
	// Shrink proposes simpler variants of c (may be empty).
	Shrink(c any) []any
}

// Check binds a property to its engines and evidence texts.
type Check struct {
	Property       string
	Level          string // exploration | fault_enumeration
	Rule           string
	Engines        []Engine
	Assumptions    []string
	RealComponents []string
	SimComponents  []string
	// Probes that must be > 0 in the thorough tier (exit 2 otherwise: "workload does not reach X").
	RequiredProbes []string
	// CrashOwner: a worker death reproduced alone is a violation of this property (C11, C12); otherwise exit 2.
	CrashOwner bool
	// Exhaustive is set when a tier enumerates a finite fault grid completely (per tier).
	Exhaustive func(tier string) bool
	// SampledOracles: oracle ids whose detector is itself sampling (race detector): confirmed by repeated replays, not shrunk.
	SampledOracles map[string]bool
	// Budget: wall seconds per tier.
	QuickBudget, ThoroughBudget int
}

var registry = map[string]*Check{}

func Register(c *Check) { registry[c.Property] = c }

func Lookup(prop string) *Check { return registry[prop] }

func Properties() []string {
	var out []string
	for k := range registry {
		out = append(out, k)
	}
	sort.Strings(out)
	return out
}

func (c *Check) engine(name string) Engine {
	for _, e := range c.Engines {
		if e.Name() == name {
			return e
		}
	}
	return nil
}

// ReplayFile is the on-disk form of a (minimised) failing run.
type ReplayFile struct {
	Property  string          `json:"property"`
	Engine    string          `json:"engine"`
	Tier      string          `json:"tier"`
	Seed      uint64          `json:"seed"`
	Index     int             `json:"index"`
	Violation Violation       `json:"violation"`
	Case      json.RawMessage `json:"case"`
	Minimised bool            `json:"minimised"`
	ShrinkLog []string        `json:"shrink_log,omitempty"`
}
