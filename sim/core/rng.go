// Package core: seeded PRNG, run driver, evidence writer, minimiser.
//
// One integer (VERIF_SEED) decides every choice of a tier: per-run sub-seeds are
// H(seed, engine, scenario, index); every run is first materialised into an explicit
// JSON-serialisable Case (world spec + fault plan + schedule plan) and execution is a
// pure function of that Case and the code under test.
package core

import (
	"crypto/sha256"
	"encoding/binary"
	"io"
)

// Rng is xoshiro256** seeded through splitmix64. Not safe for concurrent use.
type Rng struct{ s [4]uint64 }

func splitmix(x *uint64) uint64 {
	*x += 0x9E3779B97F4A7C15
	z := *x
	z = (z ^ (z >> 30)) * 0xBF58476D1CE4E5B9
	z = (z ^ (z >> 27)) * 0x94D049BB133111EB
	return z ^ (z >> 31)
}

func NewRng(seed uint64) *Rng {
	r := &Rng{}
	x := seed
	for i := range r.s {
		r.s[i] = splitmix(&x)
	}
	return r
}

func rotl(x uint64, k uint) uint64 { return (x << k) | (x >> (64 - k)) }

func (r *Rng) U64() uint64 {
	s := &r.s
	res := rotl(s[1]*5, 7) * 9
	t := s[1] << 17
	s[2] ^= s[0]
	s[3] ^= s[1]
	s[1] ^= s[2]
	s[0] ^= s[3]
	s[2] ^= t
	s[3] = rotl(s[3], 45)
	return res
}

// Intn returns a value in [0,n). n<=0 returns 0.
func (r *Rng) Intn(n int) int {
	if n <= 1 {
		return 0
	}
	return int(r.U64() % uint64(n))
}

// Range returns a value in [lo,hi].
func (r *Rng) Range(lo, hi int) int {
	if hi <= lo {
		return lo
	}
	return lo + r.Intn(hi-lo+1)
}

func (r *Rng) Bool() bool { return r.U64()&1 == 1 }

// Chance is true with probability num/den.
func (r *Rng) Chance(num, den int) bool { return r.Intn(den) < num }

func (r *Rng) Bytes(n int) []byte {
	b := make([]byte, n)
	r.Read(b)
	return b
}

// Read implements io.Reader (never fails) so an Rng can stand in for crypto/rand.Reader.
func (r *Rng) Read(p []byte) (int, error) {
	i := 0
	for i+8 <= len(p) {
		binary.LittleEndian.PutUint64(p[i:], r.U64())
		i += 8
	}
	if i < len(p) {
		var t [8]byte
		binary.LittleEndian.PutUint64(t[:], r.U64())
		copy(p[i:], t[:])
	}
	return len(p), nil
}

var _ io.Reader = (*Rng)(nil)

// Pick returns one element.
func Pick[T any](r *Rng, xs []T) T { return xs[r.Intn(len(xs))] }

// SubSeed derives an independent seed from a parent seed and labels.
func SubSeed(seed uint64, labels ...any) uint64 {
	h := sha256.New()
	var b [8]byte
	binary.BigEndian.PutUint64(b[:], seed)
	h.Write(b[:])
	for _, l := range labels {
		switch v := l.(type) {
		case string:
			h.Write([]byte{1})
			h.Write([]byte(v))
			h.Write([]byte{0})
		case int:
			h.Write([]byte{2})
			binary.BigEndian.PutUint64(b[:], uint64(v))
			h.Write(b[:])
		case uint64:
			h.Write([]byte{3})
			binary.BigEndian.PutUint64(b[:], v)
			h.Write(b[:])
		default:
			panic("SubSeed: unsupported label type")
		}
	}
	return binary.BigEndian.Uint64(h.Sum(nil)[:8])
}
