package core

import (
	"bufio"
	"bytes"
	"encoding/json"
	"fmt"
	"os"
	"os/exec"
	"path/filepath"
	"runtime"
	"runtime/debug"
	"sort"
	"strconv"
	"strings"
	"sync"
	"time"
)

// Exit codes: 0 held; 1 violation (VIOLATION line printed); 2 harness/build/watchdog trouble.

// verifDir is where evidence/, replays/ and known_findings.json live (run.sh exports VERIF_DIR = its own directory).
var verifDir = func() string {
	if d := os.Getenv("VERIF_DIR"); d != "" {
		return d
	}
	return "/verif"
}()

type wireMsg struct {
	T     string          `json:"t"` // S start, R result, D done, M memory abort
	I     int             `json:"i"`
	E     string          `json:"e,omitempty"`
	O     *Outcome        `json:"o,omitempty"`
	Ms    float64         `json:"ms,omitempty"`
	C     json.RawMessage `json:"c,omitempty"`
	N     int             `json:"n,omitempty"`
	Trunc bool            `json:"trunc,omitempty"`
}

func seedFromEnv(tier string) uint64 {
	if s := os.Getenv("VERIF_SEED"); s != "" {
		if v, err := strconv.ParseUint(s, 10, 64); err == nil {
			return v
		}
		if v, err := strconv.ParseInt(s, 10, 64); err == nil {
			return uint64(v)
		}
	}
	return 1
}

// Main is the entry point of the sim binary.
func Main(args []string) int {
	if len(args) < 1 {
		fmt.Fprintln(os.Stderr, "usage: sim check <prop> <quick|thorough> | worker ... | replay <file> | shrink <in> <out> | fp <prop> <tier> <seed> <idx,...> | list")
		return 2
	}
	switch args[0] {
	case "list":
		for _, p := range Properties() {
			fmt.Println(p)
		}
		return 0
	case "check":
		if len(args) < 3 {
			return 2
		}
		return runCheck(args[1], args[2])
	case "worker":
		return runWorker(args[1:])
	case "replay":
		if len(args) < 2 {
			return 2
		}
		return runReplay(args[1])
	case "shrink":
		if len(args) < 3 {
			return 2
		}
		return runShrink(args[1], args[2])
	case "fp":
		return runFp(args[1:])
	}
	fmt.Fprintln(os.Stderr, "unknown subcommand", args[0])
	return 2
}

// ---------------------------------------------------------------- worker

func memWatch(limit uint64) {
	go func() {
		var ms runtime.MemStats
		for {
			time.Sleep(250 * time.Millisecond)
			runtime.ReadMemStats(&ms)
			if ms.HeapAlloc > limit {
				fmt.Printf("{\"t\":\"M\",\"n\":%d}\n", ms.HeapAlloc>>20)
				os.Stdout.Sync()
				os.Exit(3)
			}
		}
	}()
}

// runWorker: worker <prop> <tier> <seed> <w> <W> <deadlineUnixMs> <sampleN>
func runWorker(a []string) int {
	if len(a) < 7 {
		return 2
	}
	prop, tier := a[0], a[1]
	seed, _ := strconv.ParseUint(a[2], 10, 64)
	w, _ := strconv.Atoi(a[3])
	W, _ := strconv.Atoi(a[4])
	deadlineMs, _ := strconv.ParseInt(a[5], 10, 64)
	sampleN, _ := strconv.Atoi(a[6])
	chk := Lookup(prop)
	if chk == nil {
		fmt.Fprintln(os.Stderr, "unknown property", prop)
		return 2
	}
	debug.SetGCPercent(200)
	memWatch(6 << 30)
	out := bufio.NewWriterSize(os.Stdout, 1<<16)
	enc := json.NewEncoder(out)
	idx := 0
	ran := 0
	trunc := false
	deadline := time.UnixMilli(deadlineMs)
	for _, eng := range chk.Engines {
		perEngine := 0
		eng.Gen(prop, tier, seed, func(c any) bool {
			my := idx%W == w
			cur := idx
			idx++
			perEngine++
			if !my {
				return true
			}
			if time.Now().After(deadline) {
				trunc = true
				return false
			}
			enc.Encode(wireMsg{T: "S", I: cur, E: eng.Name()})
			out.Flush()
			t0 := time.Now()
			o := eng.Run(prop, c)
			ms := float64(time.Since(t0).Microseconds()) / 1000
			m := wireMsg{T: "R", I: cur, E: eng.Name(), O: o, Ms: ms}
			own := false
			for _, v := range o.Violations {
				if v.Property == prop {
					own = true
				}
			}
			if own || perEngine <= sampleN {
				m.C, _ = json.Marshal(c)
			}
			enc.Encode(m)
			ran++
			if own || ran%64 == 0 {
				out.Flush()
			}
			return true
		})
	}
	enc.Encode(wireMsg{T: "D", N: ran, Trunc: trunc})
	out.Flush()
	return 0
}

// caseAt regenerates the case list and returns case idx.
func caseAt(chk *Check, prop, tier string, seed uint64, want int) (Engine, any) {
	idx := 0
	var got any
	var ge Engine
	for _, eng := range chk.Engines {
		eng.Gen(prop, tier, seed, func(c any) bool {
			if idx == want {
				got, ge = c, eng
				idx++
				return false
			}
			idx++
			return true
		})
		if ge != nil {
			break
		}
	}
	return ge, got
}

// runFp: fp <prop> <tier> <seed> <idx,idx,...> -> prints "idx fingerprint" lines
func runFp(a []string) int {
	if len(a) < 4 {
		return 2
	}
	prop, tier := a[0], a[1]
	seed, _ := strconv.ParseUint(a[2], 10, 64)
	chk := Lookup(prop)
	if chk == nil {
		return 2
	}
	for _, s := range strings.Split(a[3], ",") {
		i, _ := strconv.Atoi(s)
		eng, c := caseAt(chk, prop, tier, seed, i)
		if eng == nil {
			fmt.Printf("%d MISSING\n", i)
			continue
		}
		o := eng.Run(prop, c)
		fmt.Printf("%d %s\n", i, o.Fingerprint)
	}
	return 0
}

// ---------------------------------------------------------------- replay / shrink

func loadReplay(path string) (*ReplayFile, *Check, Engine, any, error) {
	b, err := os.ReadFile(path)
	if err != nil {
		return nil, nil, nil, nil, err
	}
	var rf ReplayFile
	if err := json.Unmarshal(b, &rf); err != nil {
		return nil, nil, nil, nil, err
	}
	chk := Lookup(rf.Property)
	if chk == nil {
		return nil, nil, nil, nil, fmt.Errorf("unknown property %s", rf.Property)
	}
	eng := chk.engine(rf.Engine)
	if eng == nil {
		return nil, nil, nil, nil, fmt.Errorf("unknown engine %s", rf.Engine)
	}
	c, err := eng.Decode(rf.Case)
	if err != nil {
		return nil, nil, nil, nil, err
	}
	return &rf, chk, eng, c, nil
}

func sameClass(o *Outcome, prop, oracle string) *Violation {
	for i := range o.Violations {
		if o.Violations[i].Property == prop && o.Violations[i].Oracle == oracle {
			return &o.Violations[i]
		}
	}
	return nil
}

func runReplay(path string) int {
	rf, _, eng, c, err := loadReplay(path)
	if err != nil {
		fmt.Fprintln(os.Stderr, "replay:", err)
		return 2
	}
	o := eng.Run(rf.Property, c)
	fmt.Printf("replay fingerprint=%s exchanges=%d\n", o.Fingerprint, o.Exchanges)
	for _, v := range o.Violations {
		fmt.Printf("  violation property=%s oracle=%s sig=%s detail=%s\n", v.Property, v.Oracle, v.Sig, v.Detail)
	}
	if v := sameClass(o, rf.Property, rf.Violation.Oracle); v != nil {
		fmt.Printf("REPRODUCED property=%s oracle=%s sig=%s\n", v.Property, v.Oracle, v.Sig)
		fmt.Printf("VIOLATION property=%s replay=%s\n", rf.Property, path)
		return 1
	}
	fmt.Println("NOT-REPRODUCED")
	return 0
}

func runShrink(in, out string) int {
	rf, _, eng, c, err := loadReplay(in)
	if err != nil {
		fmt.Fprintln(os.Stderr, "shrink:", err)
		return 2
	}
	o := eng.Run(rf.Property, c)
	v := sameClass(o, rf.Property, rf.Violation.Oracle)
	if v == nil {
		fmt.Println("NOT-REPRODUCED")
		return 2
	}
	cur := c
	curV := *v
	steps := 0
	deadline := time.Now().Add(120 * time.Second)
	var log []string
outer:
	for steps < 400 && time.Now().Before(deadline) {
		for _, cand := range eng.Shrink(cur) {
			co := eng.Run(rf.Property, cand)
			if cv := sameClass(co, rf.Property, rf.Violation.Oracle); cv != nil {
				cur, curV = cand, *cv
				steps++
				b, _ := json.Marshal(cand)
				if len(b) > 160 {
					b = b[:160]
				}
				log = append(log, string(b))
				continue outer
			}
			if time.Now().After(deadline) {
				break
			}
		}
		break
	}
	rf.Case, _ = json.Marshal(cur)
	rf.Violation = curV
	rf.Minimised = true
	if len(log) > 20 {
		log = log[len(log)-20:]
	}
	rf.ShrinkLog = log
	b, _ := json.MarshalIndent(rf, "", " ")
	if err := os.WriteFile(out, b, 0o644); err != nil {
		return 2
	}
	fmt.Printf("shrunk steps=%d\n", steps)
	return 0
}

// ---------------------------------------------------------------- check (driver)

type knownFinding struct {
	Status   string `json:"status"` // "known" | "fixed"
	Property string `json:"property"`
	Oracle   string `json:"oracle"`
	Sig      string `json:"sig"`
	What     string `json:"what"`
	Commit   string `json:"commit,omitempty"`
}

func loadKnown() []knownFinding {
	b, err := os.ReadFile(filepath.Join(verifDir, "known_findings.json"))
	if err != nil {
		return nil
	}
	var f struct {
		Findings []knownFinding `json:"findings"`
	}
	if json.Unmarshal(b, &f) != nil {
		return nil
	}
	return f.Findings
}

type agg struct {
	mu        sync.Mutex
	evals     int
	discarded map[string]int
	keys      map[string]struct{}
	faults    map[string]int
	probes    map[string]int
	exch      int64
	fps       map[int]string
	samples   []json.RawMessage
	viol      []foundViolation
	perEngine map[string]int
	msSum     float64
	msMax     float64
	trunc     bool
}

type foundViolation struct {
	idx    int
	engine string
	v      Violation
	c      json.RawMessage
}

func runCheck(prop, tier string) int {
	chk := Lookup(prop)
	if chk == nil {
		fmt.Fprintln(os.Stderr, "unknown property", prop)
		return 2
	}
	if tier != "quick" && tier != "thorough" {
		return 2
	}
	seed := seedFromEnv(tier)
	fmt.Printf("VERIF_SEED=%d property=%s tier=%s\n", seed, prop, tier)
	t0 := time.Now()
	budget := chk.QuickBudget
	if tier == "thorough" {
		budget = chk.ThoroughBudget
	}
	if budget == 0 {
		budget = 60
		if tier == "thorough" {
			budget = 900
		}
	}
	if s := os.Getenv("VERIF_BUDGET_S"); s != "" {
		if v, err := strconv.Atoi(s); err == nil && v > 0 {
			budget = v
		}
	}
	W := runtime.NumCPU()
	if W > 16 {
		W = 16
	}
	if s := os.Getenv("VERIF_WORKERS"); s != "" {
		if v, err := strconv.Atoi(s); err == nil && v > 0 {
			W = v
		}
	}
	self, _ := os.Executable()
	deadline := time.Now().Add(time.Duration(budget) * time.Second)
	a := &agg{discarded: map[string]int{}, keys: map[string]struct{}{}, faults: map[string]int{}, probes: map[string]int{}, fps: map[int]string{}, perEngine: map[string]int{}}
	const sampleN = 2
	type death struct {
		w     int
		idx   int
		eng   string
		state string
	}
	var deaths []death
	var dmu sync.Mutex
	var wg sync.WaitGroup
	harnessTrouble := ""
	for w := 0; w < W; w++ {
		wg.Add(1)
		go func(w int) {
			defer wg.Done()
			cmd := exec.Command(self, "worker", prop, tier, strconv.FormatUint(seed, 10), strconv.Itoa(w), strconv.Itoa(W), strconv.FormatInt(deadline.UnixMilli(), 10), strconv.Itoa(sampleN))
			cmd.Env = append(os.Environ(), "GOMAXPROCS=2")
			var stderr bytes.Buffer
			cmd.Stderr = &stderr
			stdout, err := cmd.StdoutPipe()
			if err != nil {
				dmu.Lock()
				harnessTrouble = err.Error()
				dmu.Unlock()
				return
			}
			if err := cmd.Start(); err != nil {
				dmu.Lock()
				harnessTrouble = err.Error()
				dmu.Unlock()
				return
			}
			inflight := -1
			inflightEng := ""
			done := false
			lastLine := time.Now()
			var lmu sync.Mutex
			// wall-clock watchdog: a worker silent for a long time is killed (trigger only)
			stopWatch := make(chan struct{})
			hung := false
			go func() {
				for {
					select {
					case <-stopWatch:
						return
					case <-time.After(2 * time.Second):
					}
					lmu.Lock()
					silent := time.Since(lastLine)
					lmu.Unlock()
					limit := 600 * time.Second
					if tier == "quick" {
						limit = 400 * time.Second
					}
					if silent > limit {
						hung = true
						cmd.Process.Kill()
						return
					}
				}
			}()
			sc := bufio.NewScanner(stdout)
			sc.Buffer(make([]byte, 1<<20), 64<<20)
			memAbort := false
			for sc.Scan() {
				lmu.Lock()
				lastLine = time.Now()
				lmu.Unlock()
				var m wireMsg
				if err := json.Unmarshal(sc.Bytes(), &m); err != nil {
					continue
				}
				switch m.T {
				case "S":
					inflight, inflightEng = m.I, m.E
				case "M":
					memAbort = true
				case "R":
					inflight = -1
					a.add(prop, &m)
				case "D":
					done = true
					if m.Trunc {
						a.mu.Lock()
						a.trunc = true
						a.mu.Unlock()
					}
				}
			}
			close(stopWatch)
			err = cmd.Wait()
			if !done {
				st := "died"
				if hung {
					st = "hung"
				}
				if memAbort {
					st = "memory"
				}
				dmu.Lock()
				deaths = append(deaths, death{w, inflight, inflightEng, st + ": " + tail(stderr.String(), 1500)})
				dmu.Unlock()
			}
		}(w)
	}
	wg.Wait()
	if harnessTrouble != "" {
		fmt.Println("HARNESS-TROUBLE:", harnessTrouble)
		return 2
	}
	os.MkdirAll(filepath.Join(verifDir, "replays", prop), 0o755)
	// worker deaths: re-execute the in-flight run alone
	stalls := 0
	for _, d := range deaths {
		fmt.Printf("worker %d %s (in-flight run %d engine %s)\n", d.w, d.state, d.idx, d.eng)
		if d.idx < 0 {
			fmt.Println("HARNESS-TROUBLE: worker died outside a run:", d.state)
			return 2
		}
		eng, c := caseAt(chk, prop, tier, seed, d.idx)
		if eng == nil {
			fmt.Println("HARNESS-TROUBLE: cannot regenerate in-flight case")
			return 2
		}
		cj, _ := json.Marshal(c)
		rf := ReplayFile{Property: prop, Engine: eng.Name(), Tier: tier, Seed: seed, Index: d.idx, Case: cj,
			Violation: Violation{Property: prop, Oracle: "process-death", Sig: "process-death", Detail: d.state}}
		path := filepath.Join(verifDir, "replays", prop, fmt.Sprintf("death-%d-%d.json", seed, d.idx))
		b, _ := json.MarshalIndent(rf, "", " ")
		os.WriteFile(path, b, 0o644)
		cmd := exec.Command(self, "replay", path)
		cmd.Env = append(os.Environ(), "GOMAXPROCS=2")
		aloneLimit := 30 * time.Minute
		if tier == "quick" {
			aloneLimit = 5 * time.Minute
		}
		outb, err := runWithTimeout(cmd, aloneLimit)
		ee, isExit := err.(*exec.ExitError)
		if err == nil || (isExit && (ee.ExitCode() == 0 || ee.ExitCode() == 1)) {
			if strings.HasPrefix(d.state, "hung") && stalls < 2 {
				// The worker was silent beyond the watchdog, the same case executed alone from the same seed finishes and
				// reports nothing: every library-level choice of a run is decided by its seed, so the stall came from the
				// machine (seen in the thorough tier of C20 / C04 while other jobs shared the cores), not from the code
				// under test. Counted in the evidence; a third one in the same check run is reported as trouble.
				stalls++
				fmt.Printf("STALL: run %d exceeded the silence watchdog in its worker but completes alone in a fresh process; the remaining runs of that worker were not executed\n", d.idx)
				a.mu.Lock()
				a.probes["watchdog_stall_not_reproduced"]++
				a.mu.Unlock()
				os.Remove(path)
				continue
			}
			// survived alone: the death did not reproduce -> harness trouble (non-deterministic death)
			fmt.Println("HARNESS-TROUBLE: worker death did not reproduce when the run was executed alone")
			fmt.Println(tail(string(outb), 800))
			return 2
		}
		if chk.CrashOwner {
			a.viol = append(a.viol, foundViolation{idx: d.idx, engine: eng.Name(), c: cj,
				v: Violation{Property: prop, Oracle: "process-death", Sig: "process-death:" + eng.Name(), Detail: d.state + " | alone: " + tail(string(outb), 600)}})
		} else {
			fmt.Println("HARNESS-TROUBLE: run kills the process (reproduced alone) but this property does not own crashes")
			fmt.Println(tail(string(outb), 1500))
			return 2
		}
	}

	// determinism self-test on a sample of runs: re-execute in fresh processes at other GOMAXPROCS
	selfN := 6
	if tier == "thorough" {
		selfN = 48
	}
	stIdx := a.sampleIdx(selfN)
	stMismatch, stProcs := 0, 0
	if len(stIdx) > 0 {
		var parts []string
		for _, i := range stIdx {
			parts = append(parts, strconv.Itoa(i))
		}
		for _, gmp := range []string{"1", "4", "16"} {
			cmd := exec.Command(self, "fp", prop, tier, strconv.FormatUint(seed, 10), strings.Join(parts, ","))
			cmd.Env = append(os.Environ(), "GOMAXPROCS="+gmp)
			outb, err := runWithTimeout(cmd, 20*time.Minute)
			if err != nil {
				fmt.Println("HARNESS-TROUBLE: determinism self-test process failed:", err, tail(string(outb), 500))
				return 2
			}
			stProcs++
			for _, line := range strings.Split(string(outb), "\n") {
				f := strings.Fields(line)
				if len(f) != 2 {
					continue
				}
				i, err := strconv.Atoi(f[0])
				if err != nil {
					continue
				}
				if a.fps[i] != f[1] {
					stMismatch++
					fmt.Printf("determinism mismatch run %d GOMAXPROCS=%s: %s vs %s\n", i, gmp, a.fps[i], f[1])
				}
			}
		}
	}

	// violations: one per (oracle, sig); shrink + confirm in fresh processes
	known := loadKnown()
	sort.Slice(a.viol, func(i, j int) bool { return a.viol[i].idx < a.viol[j].idx })
	seen := map[string]bool{}
	exit := 0
	reported := 0
	unconfirmed := 0
	knownHit := map[string]bool{}
	for _, fv := range a.viol {
		k := fv.v.Oracle + "|" + fv.v.Sig
		if seen[k] {
			continue
		}
		seen[k] = true
		isKnown := false
		for _, kf := range known {
			if kf.Status == "known" && kf.Property == prop && kf.Oracle == fv.v.Oracle && kf.Sig == fv.v.Sig {
				isKnown = true
				if !knownHit[k] {
					knownHit[k] = true
					fmt.Printf("KNOWN-FINDING: property=%s %s (oracle=%s sig=%s)\n", prop, kf.What, kf.Oracle, kf.Sig)
				}
			}
		}
		if isKnown {
			continue
		}
		if reported >= 8 {
			continue
		}
		base := fmt.Sprintf("%s-%d-%d", sanitize(fv.v.Oracle), seed, fv.idx)
		raw := filepath.Join(verifDir, "replays", prop, base+".raw.json")
		min := filepath.Join(verifDir, "replays", prop, base+".json")
		rf := ReplayFile{Property: prop, Engine: fv.engine, Tier: tier, Seed: seed, Index: fv.idx, Violation: fv.v, Case: fv.c}
		b, _ := json.MarshalIndent(rf, "", " ")
		os.WriteFile(raw, b, 0o644)
		final := raw
		if fv.v.Oracle != "process-death" {
			// oracles whose detector samples (the Go race detector's shadow memory is bounded and evicts pseudo-randomly)
			// are confirmed by up to 8 fresh-process replays of the same deterministic schedule and are not shrunk
			sampled := chk.SampledOracles[fv.v.Oracle]
			if !sampled {
				cmd := exec.Command(self, "shrink", raw, min)
				if outb, err := runWithTimeout(cmd, 10*time.Minute); err == nil {
					final = min
					os.Remove(raw)
				} else {
					fmt.Println("shrink failed, keeping unminimised replay:", err, tail(string(outb), 300))
				}
			}
			tries := 1
			if sampled {
				tries = 8
			}
			confirmed := false
			var lastOut []byte
			var lastErr error
			for t := 0; t < tries && !confirmed; t++ {
				cmd := exec.Command(self, "replay", final)
				outb, err := runWithTimeout(cmd, 10*time.Minute)
				lastOut, lastErr = outb, err
				ee, isExit := err.(*exec.ExitError)
				confirmed = isExit && ee.ExitCode() == 1
			}
			if !confirmed && fv.v.Oracle == "scheduler-stuck" && stalls < 2 {
				// the only wall-clock oracle: a schedule that exceeded the guard in its worker but completes from the same
				// seed in a fresh process is a stall of the machine (see the watchdog case above)
				stalls++
				fmt.Printf("STALL: schedule %d exceeded the wall-clock guard in its worker but completes in a fresh process\n", fv.idx)
				a.mu.Lock()
				a.probes["watchdog_stall_not_reproduced"]++
				a.mu.Unlock()
				continue
			}
			if !confirmed {
				// not reported as a violation; remembered, and exit 2 unless another violation of this run is confirmed
				fmt.Printf("NOT-CONFIRMED: oracle=%s did not reproduce from %s in %d fresh process(es) (%v)\n%s\n", fv.v.Oracle, final, tries, lastErr, tail(string(lastOut), 400))
				unconfirmed++
				continue
			}
		}
		fmt.Printf("violation: oracle=%s sig=%s detail=%s\n", fv.v.Oracle, fv.v.Sig, trunc(fv.v.Detail, 600))
		fmt.Printf("VIOLATION property=%s replay=%s\n", prop, final)
		reported++
		exit = 1
	}

	if exit == 0 && unconfirmed > 0 {
		fmt.Printf("HARNESS-TROUBLE: %d violation(s) seen by a worker did not reproduce from their replay files\n", unconfirmed)
		return 2
	}
	if exit == 0 && stMismatch > 0 {
		fmt.Println("HARNESS-TROUBLE: determinism self-test failed")
		return 2
	}
	// reach probes
	if tier == "thorough" && exit == 0 {
		for _, p := range chk.RequiredProbes {
			if a.probes[p] == 0 {
				fmt.Printf("HARNESS-TROUBLE: workload does not reach probe %q in the thorough tier\n", p)
				return 2
			}
		}
	}

	if path := os.Getenv("VERIF_DUMP_FPS"); path != "" {
		// determinism proof on the whole tier: (run index, fingerprint) pairs, to be diffed across processes / worker counts
		var idx []int
		for i := range a.fps {
			idx = append(idx, i)
		}
		sort.Ints(idx)
		var b strings.Builder
		for _, i := range idx {
			fmt.Fprintf(&b, "%d %s\n", i, a.fps[i])
		}
		os.WriteFile(path, []byte(b.String()), 0o644)
	}
	wall := time.Since(t0).Seconds()
	if err := a.writeEvidence(chk, tier, seed, wall, reported, len(seen), stIdx, stProcs, stMismatch, knownHit); err != nil {
		fmt.Println("HARNESS-TROUBLE: evidence:", err)
		return 2
	}
	fmt.Printf("done property=%s tier=%s runs=%d distinct=%d discarded=%d exchanges=%d wall=%.1fs truncated_by_budget=%v violations=%d\n",
		prop, tier, a.evals, len(a.keys), sumInts(a.discarded), a.exch, wall, a.trunc, reported)
	if a.evals == 0 {
		fmt.Println("HARNESS-TROUBLE: no runs executed")
		return 2
	}
	if exit == 0 {
		// a run given up for a reason internal to the harness (own encoder not accepted, session could not be installed...)
		// decided nothing: that must not look like a pass
		for reason, n := range a.discarded {
			if strings.HasPrefix(reason, "harness:") {
				fmt.Printf("HARNESS-TROUBLE: %d run(s) discarded: %s\n", n, reason)
				exit = 2
			}
		}
	}
	return exit
}

func (a *agg) add(prop string, m *wireMsg) {
	a.mu.Lock()
	defer a.mu.Unlock()
	o := m.O
	if o == nil {
		return
	}
	a.evals++
	a.perEngine[m.E]++
	a.msSum += m.Ms
	if m.Ms > a.msMax {
		a.msMax = m.Ms
	}
	if o.Discarded != "" {
		a.discarded[o.Discarded]++
	}
	if o.Key != "" {
		a.keys[o.Key] = struct{}{}
	}
	for k, v := range o.Faults {
		a.faults[k] += v
	}
	for k, v := range o.Probes {
		a.probes[k] += v
	}
	a.exch += int64(o.Exchanges)
	if o.Fingerprint != "" && (len(a.fps) < 4096 || os.Getenv("VERIF_DUMP_FPS") != "") {
		a.fps[m.I] = o.Fingerprint
	}
	own := false
	for _, v := range o.Violations {
		if v.Property == prop {
			own = true
			if len(a.viol) < 2000 {
				a.viol = append(a.viol, foundViolation{idx: m.I, engine: m.E, v: v, c: m.C})
			}
		}
	}
	if !own && m.C != nil && len(a.samples) < 6 {
		a.samples = append(a.samples, m.C)
	}
}

func (a *agg) sampleIdx(n int) []int {
	var all []int
	for i := range a.fps {
		all = append(all, i)
	}
	sort.Ints(all)
	if len(all) <= n {
		return all
	}
	var out []int
	step := len(all) / n
	for i := 0; i < n; i++ {
		out = append(out, all[i*step])
	}
	return out
}

func (a *agg) writeEvidence(chk *Check, tier string, seed uint64, wall float64, violations, classes int, stIdx []int, stProcs, stMismatch int, knownHit map[string]bool) error {
	samples := make([]any, 0, len(a.samples))
	for _, s := range a.samples {
		var v any
		json.Unmarshal(s, &v)
		samples = append(samples, v)
	}
	if len(samples) == 0 {
		samples = append(samples, "no passing sample captured")
	}
	cov := map[string]any{
		"evaluations":              a.evals,
		"distinct_nontrivial":      len(a.keys),
		"rule":                     chk.Rule,
		"samples":                  samples,
		"runs_per_engine":          a.perEngine,
		"runs_per_hour":            int(float64(a.evals) / wall * 3600),
		"simulated_exchanges":      a.exch,
		"simulated_time_note":      "one Transceive exchange (or one store/scheduler step) = one tick of simulated time; the library has no clock",
		"faults_injected":          a.faults,
		"rare_probes":              a.probes,
		"discarded":                a.discarded,
		"real_components":          chk.RealComponents,
		"simulated_components":     chk.SimComponents,
		"determinism_selftest":     map[string]any{"runs": len(stIdx), "fresh_processes": stProcs, "gomaxprocs": []int{1, 4, 16}, "mismatches": stMismatch},
		"truncated_by_wall_budget": a.trunc,
		"run_ms_mean":              a.msSum / float64(max(1, a.evals)),
		"run_ms_max":               a.msMax,
		"violation_classes":        classes,
		"known_findings_hit":       len(knownHit),
	}
	if chk.Exhaustive != nil && chk.Exhaustive(tier) && !a.trunc {
		cov["exhaustive"] = true
	}
	ev := map[string]any{
		"property_id": chk.Property,
		"tier":        tier,
		"seed":        int64(seed & 0x7fffffffffffffff),
		"level":       chk.Level,
		"coverage":    cov,
		"assumptions": chk.Assumptions,
		"wall_s":      wall,
		"violations":  violations,
	}
	b, err := json.MarshalIndent(ev, "", " ")
	if err != nil {
		return err
	}
	os.MkdirAll(filepath.Join(verifDir, "evidence"), 0o755)
	return os.WriteFile(filepath.Join(verifDir, "evidence", chk.Property+".json"), b, 0o644)
}

func runWithTimeout(cmd *exec.Cmd, d time.Duration) ([]byte, error) {
	var buf bytes.Buffer
	cmd.Stdout = &buf
	cmd.Stderr = &buf
	if err := cmd.Start(); err != nil {
		return nil, err
	}
	done := make(chan error, 1)
	go func() { done <- cmd.Wait() }()
	select {
	case err := <-done:
		return buf.Bytes(), err
	case <-time.After(d):
		cmd.Process.Kill()
		<-done
		return buf.Bytes(), fmt.Errorf("timeout after %v", d)
	}
}

func tail(s string, n int) string {
	if len(s) <= n {
		return s
	}
	return "..." + s[len(s)-n:]
}

func trunc(s string, n int) string {
	if len(s) <= n {
		return s
	}
	return s[:n] + "..."
}

func sanitize(s string) string {
	var b strings.Builder
	for _, r := range s {
		if (r >= 'a' && r <= 'z') || (r >= 'A' && r <= 'Z') || (r >= '0' && r <= '9') || r == '-' || r == '_' {
			b.WriteRune(r)
		} else {
			b.WriteByte('_')
		}
	}
	return b.String()
}

func sumInts(m map[string]int) int {
	t := 0
	for _, v := range m {
		t += v
	}
	return t
}
