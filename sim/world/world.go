// Package world materialises a complete simulated world from a serialisable WorldSpec:
// issuer (CSCA, DS, calendar), holder, personalised chip (files + keys), trust store and the
// terminal-side configuration. Everything is a pure function of the spec.
package world

import (
	"fmt"
	"math/big"
	"time"

	"github.com/gmrtd/gmrtd/cms"
	"github.com/gmrtd/gmrtd/mrz"
	"github.com/gmrtd/gmrtd/password"

	"verif/sim/chip"
	"verif/sim/core"
	"verif/sim/lds"
	"verif/sim/pki"
)

type KeySpec struct {
	Kind     string `json:"kind"` // rsa | ec
	Bits     int    `json:"bits,omitempty"`
	CurveID  int    `json:"curve,omitempty"`
	Explicit bool   `json:"explicit,omitempty"`
}

type SchemeSpec struct {
	Kind string `json:"kind"` // pkcs1 | pss | ecdsa
	Hash string `json:"hash"`
}

type PaceSpec struct {
	Suite   string `json:"suite"`
	CAM     bool   `json:"cam,omitempty"`
	ParamID int    `json:"param"`
}

type CASpec struct {
	CurveID  int      `json:"curve"`
	Explicit bool     `json:"explicit,omitempty"`
	Suites   []string `json:"suites,omitempty"` // empty = legacy chip without ChipAuthenticationInfo (MSE:Set KAT, 3DES)
	KeyID    *int64   `json:"key_id,omitempty"`
	TwoKeys  bool     `json:"two_keys,omitempty"` // a second key with another id listed first
}

type AASpec struct {
	Kind     string `json:"kind"` // rsa | ec
	Bits     int    `json:"bits,omitempty"`
	CurveID  int    `json:"curve,omitempty"`
	Explicit bool   `json:"explicit,omitempty"`
	Hash     string `json:"hash,omitempty"` // RSA trailer hash
	M1       string `json:"m1,omitempty"`
	DER      bool   `json:"der,omitempty"`
}

type WorldSpec struct {
	Seed    uint64 `json:"seed"`
	Layout  string `json:"layout,omitempty"`
	Country int    `json:"country"`

	CSCA         KeySpec    `json:"csca"`
	CSCAScheme   SchemeSpec `json:"csca_scheme"`
	DS           KeySpec    `json:"ds"`
	DSScheme     SchemeSpec `json:"ds_scheme"`
	DGHash       string     `json:"dg_hash"`
	SIDForm      string     `json:"sid,omitempty"`
	LDSVersion   int        `json:"lds_version,omitempty"`
	NoSigning    bool       `json:"no_signing_time,omitempty"`
	Indefinite   bool       `json:"indefinite,omitempty"`
	HashNoParams bool       `json:"hash_no_params,omitempty"`
	ExtraCerts   int        `json:"extra_certs,omitempty"`
	NameVariant  bool       `json:"name_variant,omitempty"`
	ExtraFirst   bool       `json:"extra_first,omitempty"` // additional embedded certificates placed before the signer's certificate
	EmbedCSCA    bool       `json:"embed_csca,omitempty"`  // the CSCA certificate is embedded as well
	CardSecVariant   int    `json:"cardsec_variant,omitempty"`    // 0 as the SOD; 1 signed by a later DS generation; 2 by an earlier one; 3 no signing-time attribute
	CardSecExtraKeys int    `json:"cardsec_extra_keys,omitempty"` // further chip authentication public keys (other domain parameters, own key ids) next to the PACE-CAM key
	HashOrder    int        `json:"hash_order,omitempty"`  // order of the data group hash list: 0 ascending, 1 descending, 2 seeded shuffle, 3 one adjacent swap, 4 one entry moved to the end
	Untrusted    bool       `json:"untrusted,omitempty"`      // CSCA not in the terminal's trust store
	DecoyAnchors int        `json:"decoys,omitempty"`         // other countries' / same-SKI anchors in the store
	SameSKIDecoy bool       `json:"same_ski_decoy,omitempty"` // same-country anchor with the same key identifier but another key, listed first
	SignEdge     int        `json:"sign_edge,omitempty"`      // 0 inside; 1 DS.notBefore; 2 DS.notAfter; 3 DS.notBefore-1s; 4 DS.notAfter+1s; 5 CSCA.notAfter; 6 CSCA.notAfter+1s; 7 CSCA.notBefore; 8 CSCA.notBefore-1s

	BAC      bool       `json:"bac,omitempty"`
	PACE     []PaceSpec `json:"pace,omitempty"`
	PaceJunk int        `json:"pace_junk,omitempty"` // unsupported PACE infos added to CardAccess
	Password string     `json:"password"`            // mrz | mrzi | dg1 | can
	CA       *CASpec    `json:"ca,omitempty"`
	AA       *AASpec    `json:"aa,omitempty"`

	DGs      []int `json:"dgs"`
	DG2Size  int   `json:"dg2_size,omitempty"`
	DG7Size  int   `json:"dg7_size,omitempty"`
	DG13Size int   `json:"dg13_size,omitempty"`
	EACDGs   []int `json:"eac_dgs,omitempty"` // listed in the SOD, stored, but terminal-authentication protected

	B chip.Behaviour `json:"chip"`

	MaxLe       int  `json:"max_le,omitempty"`
	SkipPace    bool `json:"skip_pace,omitempty"`
	SkipImages  bool `json:"skip_images,omitempty"`
	AAChallenge bool `json:"aa_challenge,omitempty"`
}

// World is a materialised world.
type World struct {
	Spec                                                 WorldSpec
	Rng                                                  *core.Rng
	Holder                                               lds.Holder
	CAN                                                  string
	Alpha2                                               string
	T0                                                   time.Time // CSCA notBefore
	SignTime                                             time.Time
	CSCAKey                                              *pki.Key
	CSCACert                                             *pki.Cert
	DSKey                                                *pki.Key
	DSCert                                               *pki.Cert
	Extra                                                []*pki.Cert
	SOD                                                  *pki.SignedData
	SODSpec                                              pki.SignedDataSpec
	LSO                                                  []byte
	CSCAName                                             pki.Name
	DSName                                               pki.Name
	DSNotBefore, DSNotAfter, CSCANotBefore, CSCANotAfter time.Time
	CardSec                                              *pki.SignedData
	DGHashes                                             map[int][]byte
	DGOrder                                              []int
	LDS                                                  map[uint16][]byte
	MF                                                   map[uint16][]byte
	Pers                                                 *chip.Personalisation
	Pool                                                 cms.CertPool
	AAKey                                                *chip.AAKey
	CAKeys                                               []chip.CAKey
}

func (k KeySpec) make(rng *core.Rng) *pki.Key {
	if k.Kind == "rsa" {
		return pki.NewRSAKey(k.Bits, rng)
	}
	return pki.NewECKey(k.CurveID, rng, k.Explicit)
}

func (s SchemeSpec) scheme() pki.Scheme { return pki.Scheme{Kind: s.Kind, Hash: s.Hash} }

func dgFid(n int) uint16 { return chip.FidDG(n) }

// Build materialises the world. It panics only on harness bugs (invalid spec).
func Build(spec WorldSpec) *World {
	w := &World{Spec: spec}
	rng := core.NewRng(core.SubSeed(spec.Seed, "world"))
	w.Rng = rng
	c := lds.Countries[spec.Country%len(lds.Countries)]
	w.Alpha2 = c[1]
	w.Holder = lds.RandomHolder(rng, spec.Layout, c[0])
	w.CAN = fmt.Sprintf("%06d", rng.Intn(1000000))

	// ---- calendar
	w.T0 = time.Date(2015+rng.Intn(5), time.Month(1+rng.Intn(12)), 1+rng.Intn(28), rng.Intn(24), rng.Intn(60), rng.Intn(60), 0, time.UTC)
	t2 := w.T0.AddDate(0, rng.Range(1, 24), 0)                 // DS notBefore
	w.SignTime = t2.AddDate(0, rng.Range(0, 30), rng.Intn(28)) // within DS window (3 years)
	cscaNotAfter := w.T0.AddDate(15, 0, 0)
	dsNotAfter := t2.AddDate(3, 0, 0)
	cscaNotBefore := w.T0
	switch spec.SignEdge {
	case 1:
		w.SignTime = t2
	case 2:
		w.SignTime = dsNotAfter
	case 3:
		w.SignTime = t2.Add(-time.Second)
	case 4:
		w.SignTime = dsNotAfter.Add(time.Second)
	case 5, 6: // CSCA expires inside the DS window
		cscaNotAfter = t2.AddDate(1, 0, 0)
		w.SignTime = cscaNotAfter
		if spec.SignEdge == 6 {
			w.SignTime = cscaNotAfter.Add(time.Second)
		}
	case 7, 8: // CSCA becomes valid inside the DS window
		cscaNotBefore = t2.AddDate(0, 6, 0)
		w.SignTime = cscaNotBefore
		if spec.SignEdge == 8 {
			w.SignTime = cscaNotBefore.Add(-time.Second)
		}
	}
	w.DSNotBefore, w.DSNotAfter, w.CSCANotBefore, w.CSCANotAfter = t2, dsNotAfter, cscaNotBefore, cscaNotAfter

	// ---- issuer
	w.CSCAKey = spec.CSCA.make(rng)
	w.DSKey = spec.DS.make(rng)
	for i := 0; i < 16 && w.DSKey.RSA != nil && w.CSCAKey.RSA != nil && w.DSKey.RSA.N.Cmp(w.CSCAKey.RSA.N) == 0; i++ {
		// the RSA keys come from a small embedded pool: a document signer never shares the CSCA's key
		w.DSKey = spec.DS.make(rng)
	}
	cscaName := pki.CountryName(w.Alpha2, "Sim Gov", "CSCA "+w.Alpha2)
	dsName := pki.CountryName(w.Alpha2, "Sim Gov", "DS "+w.Alpha2)
	cscaSKI := pki.SKIOf(w.CSCAKey)
	w.CSCAName, w.DSName = cscaName, dsName
	w.CSCACert = pki.Issue(pki.CertSpec{
		Serial: new(big.Int).SetUint64(rng.U64() >> 1), Issuer: cscaName, Subject: cscaName, NotBefore: cscaNotBefore, NotAfter: cscaNotAfter,
		Key: w.CSCAKey, SKI: cscaSKI, AKI: cscaSKI, IsCA: true, PathLen: 0, KeyUsageBits: []int{pki.KUKeyCertSign, pki.KUCRLSign},
	}, w.CSCAKey, spec.CSCAScheme.scheme(), rng)
	w.DSCert = pki.Issue(pki.CertSpec{
		Serial: new(big.Int).SetUint64(rng.U64() >> 1), Issuer: cscaName, Subject: dsName, NotBefore: t2, NotAfter: dsNotAfter,
		Key: w.DSKey, SKI: pki.SKIOf(w.DSKey), AKI: cscaSKI, OmitBC: true, PathLen: -1, KeyUsageBits: []int{pki.KUDigitalSignature},
	}, w.CSCAKey, spec.CSCAScheme.scheme(), rng)
	for i := 0; i < spec.ExtraCerts; i++ {
		k := pki.NewECKey(12, rng, false)
		w.Extra = append(w.Extra, pki.Issue(pki.CertSpec{
			Serial: new(big.Int).SetUint64(rng.U64() >> 1), Issuer: cscaName, Subject: pki.CountryName(w.Alpha2, "Sim Gov", fmt.Sprintf("DS extra %d", i)),
			NotBefore: t2, NotAfter: dsNotAfter, Key: k, SKI: pki.SKIOf(k), AKI: cscaSKI, OmitBC: true, PathLen: -1, KeyUsageBits: []int{pki.KUDigitalSignature},
		}, w.CSCAKey, spec.CSCAScheme.scheme(), rng))
	}

	// ---- chip keys
	w.LDS = map[uint16][]byte{}
	w.MF = map[uint16][]byte{}
	pers := &chip.Personalisation{MrzInfo: w.Holder.MrzInfo(), CAN: w.CAN, BAC: spec.BAC, MF: w.MF, LDS: w.LDS, EACOnly: map[uint16]bool{}}
	w.Pers = pers
	var paceInfos [][]byte
	for _, p := range spec.PACE {
		oid := chip.PaceOID(p.Suite, p.CAM)
		pers.PACE = append(pers.PACE, chip.PaceSupport{OID: oid, Suite: p.Suite, CAM: p.CAM, ParamID: p.ParamID})
		paceInfos = append(paceInfos, lds.PACEInfo(oid, p.ParamID))
	}
	var junk [][]byte
	for i := 0; i < spec.PaceJunk; i++ {
		switch rng.Intn(4) {
		case 0: // integrated mapping (recognised, not implemented)
			junk = append(junk, lds.PACEInfo(append(append([]int{}, chip.OidPACEECDHIM...), 1+rng.Intn(4)), 13))
		case 1: // DH generic mapping
			junk = append(junk, lds.PACEInfo(append(append([]int{}, chip.OidPACEDHGM...), 1+rng.Intn(4)), rng.Intn(3)))
		case 2: // unknown suite arc under ECDH-GM
			junk = append(junk, lds.PACEInfo(append(append([]int{}, chip.OidPACEECDHGM...), 9+rng.Intn(5)), 13))
		default:
			junk = append(junk, lds.UnknownInfo(rng))
		}
	}
	hasCAM := false
	camParam := 0
	for _, p := range spec.PACE {
		if p.CAM {
			hasCAM, camParam = true, p.ParamID
		}
	}
	var dg14Infos [][]byte
	if len(spec.PACE) > 0 || len(junk) > 0 {
		// CardAccess: supported and unsupported infos in a seeded order
		all := append(append([][]byte{}, paceInfos...), junk...)
		for i := len(all) - 1; i > 0; i-- {
			j := rng.Intn(i + 1)
			all[i], all[j] = all[j], all[i]
		}
		w.MF[chip.FidCardAccess] = lds.SecurityInfos(all, false)
		dg14Infos = append(dg14Infos, all...)
	}
	if spec.CA != nil {
		ca := spec.CA
		curve := chip.CurveByParamID(ca.CurveID)
		mk := func(id *int64) (chip.CAKey, *pki.Key) {
			k := pki.NewECKey(ca.CurveID, rng, ca.Explicit)
			return chip.CAKey{KeyID: id, Curve: curve, D: k.D, X: k.X, Y: k.Y}, k
		}
		if ca.TwoKeys {
			other := int64(1)
			if ca.KeyID != nil && *ca.KeyID == 1 {
				other = 2
			}
			ck, pk := mk(&other)
			pers.CAKeys = append(pers.CAKeys, ck)
			dg14Infos = append(dg14Infos, lds.ChipAuthPubKeyInfo(chip.OidPKECDH, pk.SPKI(), &other))
		}
		ck, pk := mk(ca.KeyID)
		pers.CAKeys = append(pers.CAKeys, ck)
		dg14Infos = append(dg14Infos, lds.ChipAuthPubKeyInfo(chip.OidPKECDH, pk.SPKI(), ca.KeyID))
		for _, s := range ca.Suites {
			pers.CAProto = append(pers.CAProto, chip.CAProto{OID: chip.CAOID(s), Suite: s, KeyID: ca.KeyID})
			dg14Infos = append(dg14Infos, lds.ChipAuthInfo(chip.CAOID(s), ca.KeyID))
		}
		if rng.Chance(1, 2) {
			dg14Infos = append(dg14Infos, lds.TerminalAuthInfo())
		}
	}
	if hasCAM {
		k := pki.NewECKey(camParam, rng, false)
		pers.CAMKey = len(pers.CAKeys)
		pers.CAKeys = append(pers.CAKeys, chip.CAKey{Curve: k.Curve, D: k.D, X: k.X, Y: k.Y})
		var camKeyID *int64
		csInfos := append([][]byte{}, paceInfos...)
		if spec.CardSecExtraKeys > 0 {
			// several keys: each carries a key id (9303-11 9.2.6); the others sit on other domain parameters
			xr := core.NewRng(core.SubSeed(spec.Seed, "cardsec-extra-keys"))
			id := int64(xr.Range(5, 90))
			camKeyID = &id
			for i := 0; i < spec.CardSecExtraKeys; i++ {
				op := chip.AllParamIDs[xr.Intn(len(chip.AllParamIDs))]
				if op == camParam {
					op = chip.AllParamIDs[(xr.Intn(len(chip.AllParamIDs)-1)+1+indexOf(chip.AllParamIDs, camParam))%len(chip.AllParamIDs)]
				}
				ok := pki.NewECKey(op, xr, false)
				oid := id + int64(i) + 1
				if xr.Bool() {
					oid = id - int64(i) - 1
				}
				csInfos = append(csInfos, lds.ChipAuthPubKeyInfo(chip.OidPKECDH, lds.StdDomainSPKI(op, ok.PointBytes()), &oid))
			}
		}
		csInfos = append(csInfos, lds.ChipAuthPubKeyInfo(chip.OidPKECDH, lds.StdDomainSPKI(camParam, k.PointBytes()), camKeyID))
		csSigner, csCert, csTime := w.DSKey, w.DSCert, signingTime(spec, w.SignTime)
		if spec.CardSecVariant == 1 || spec.CardSecVariant == 2 {
			// EF.CardSecurity signed by another document signer generation whose validity does not contain the SOD's signing time
			xr := core.NewRng(core.SubSeed(spec.Seed, "cardsec-signer"))
			nb, na := dsNotAfter.AddDate(0, 0, 1), dsNotAfter.AddDate(3, 0, 0)
			if spec.CardSecVariant == 2 {
				nb, na = w.T0.AddDate(0, 0, 1), t2.AddDate(0, 0, -1)
			}
			if nb.Before(cscaNotBefore) {
				nb = cscaNotBefore
			}
			if na.After(cscaNotAfter) {
				na = cscaNotAfter
			}
			if nb.Before(na) {
				csSigner = spec.DS.make(xr)
				csCert = pki.Issue(pki.CertSpec{
					Serial: new(big.Int).SetUint64(xr.U64() >> 1), Issuer: cscaName, Subject: pki.CountryName(w.Alpha2, "Sim Gov", "DS other generation"), NotBefore: nb, NotAfter: na,
					Key: csSigner, SKI: pki.SKIOf(csSigner), AKI: cscaSKI, OmitBC: true, PathLen: -1, KeyUsageBits: []int{pki.KUDigitalSignature},
				}, w.CSCAKey, spec.CSCAScheme.scheme(), xr)
				mid := nb.Add(na.Sub(nb) / 2)
				csTime = &mid
			}
		}
		if spec.CardSecVariant == 3 {
			csTime = nil
		}
		w.CardSec = pki.BuildSignedData(pki.SignedDataSpec{
			EContentType: pki.OidSecurityObject, EContent: lds.SecurityInfos(csInfos, true), DigestAlg: spec.DSScheme.Hash, Scheme: spec.DSScheme.scheme(),
			Signer: csSigner, SignerCert: csCert, SIDForm: spec.SIDForm, SigningTime: csTime,
		}, rng)
		w.MF[chip.FidCardSecurity] = w.CardSec.DER
	}
	w.CAKeys = pers.CAKeys
	if spec.AA != nil {
		a := spec.AA
		var spki []byte
		ak := &chip.AAKey{Hash: a.Hash, M1Policy: a.M1, DER: a.DER}
		if a.Kind == "rsa" {
			k := pki.NewRSAKey(a.Bits, rng)
			ak.N, ak.D = k.RSA.N, k.RSA.D
			if ak.Hash == "" {
				ak.Hash = "SHA1"
			}
			spki = k.SPKI()
		} else {
			k := pki.NewECKey(a.CurveID, rng, a.Explicit)
			ak.Curve, ak.ECD = k.Curve, k.D
			ak.Hash = ""
			spki = k.SPKI()
			h := "SHA256"
			switch nb := k.Curve.Params().N.BitLen(); {
			case nb >= 512:
				h = "SHA512"
			case nb >= 384:
				h = "SHA384"
			case nb >= 256:
				h = "SHA256"
			default:
				h = "SHA224"
			}
			dg14Infos = append(dg14Infos, lds.ActiveAuthInfo(lds.EcdsaPlainOID(h)))
		}
		pers.AA = ak
		w.AAKey = ak
		w.LDS[dgFid(15)] = lds.DG15(spki)
	}

	// ---- data groups
	has := func(n int) bool {
		for _, d := range spec.DGs {
			if d == n {
				return true
			}
		}
		return false
	}
	w.LDS[dgFid(1)] = lds.DG1(w.Holder.MRZ())
	if has(2) {
		img := lds.StubJPEG(rng, max(16, spec.DG2Size))
		w.LDS[dgFid(2)] = lds.DG2(rng, [][][]byte{{img}})
	}
	if has(7) {
		w.LDS[dgFid(7)] = lds.DG7([][]byte{lds.StubJP2(rng, max(16, spec.DG7Size))})
	}
	if has(11) {
		w.LDS[dgFid(11)] = lds.DG11(rng)
	}
	if has(12) {
		w.LDS[dgFid(12)] = lds.DG12(rng)
	}
	if has(13) {
		w.LDS[dgFid(13)] = lds.DG13(rng, max(1, spec.DG13Size))
	}
	if has(16) {
		w.LDS[dgFid(16)] = lds.DG16(rng)
	}
	if len(dg14Infos) > 0 {
		w.LDS[dgFid(14)] = lds.DG14(lds.SecurityInfos(dg14Infos, false))
	}
	for _, n := range spec.EACDGs {
		w.LDS[dgFid(n)] = lds.OpaqueDG(rng, n, 40)
		pers.EACOnly[dgFid(n)] = true
	}

	// ---- SOD
	w.DGHashes = map[int][]byte{}
	for n := 1; n <= 16; n++ {
		if f, ok := w.LDS[dgFid(n)]; ok {
			w.DGHashes[n] = chip.Hash(spec.DGHash, f)
			w.DGOrder = append(w.DGOrder, n)
		}
	}
	switch spec.HashOrder {
	case 1:
		for i, j := 0, len(w.DGOrder)-1; i < j; i, j = i+1, j-1 {
			w.DGOrder[i], w.DGOrder[j] = w.DGOrder[j], w.DGOrder[i]
		}
	case 2:
		hr := core.NewRng(core.SubSeed(spec.Seed, "hash-order"))
		for i := len(w.DGOrder) - 1; i > 0; i-- {
			j := hr.Intn(i + 1)
			w.DGOrder[i], w.DGOrder[j] = w.DGOrder[j], w.DGOrder[i]
		}
	case 3: // ascending except for one adjacent pair
		if n := len(w.DGOrder); n > 1 {
			i := core.NewRng(core.SubSeed(spec.Seed, "hash-order")).Intn(n - 1)
			w.DGOrder[i], w.DGOrder[i+1] = w.DGOrder[i+1], w.DGOrder[i]
		}
	case 4: // ascending except for one entry appended at the end (a data group added to the profile later)
		if n := len(w.DGOrder); n > 1 {
			i := core.NewRng(core.SubSeed(spec.Seed, "hash-order")).Intn(n - 1)
			x := w.DGOrder[i]
			w.DGOrder = append(append(w.DGOrder[:i:i], w.DGOrder[i+1:]...), x)
		}
	}
	lso := pki.LDSSecurityObject(spec.LDSVersion, spec.DGHash, w.DGHashes, w.DGOrder, "0108", "040000", spec.HashNoParams)
	if spec.EmbedCSCA {
		w.Extra = append(w.Extra, w.CSCACert)
	}
	sd := pki.SignedDataSpec{
		ExtraFirst: spec.ExtraFirst,
		EContentType: pki.OidLdsSecurityObj, EContent: lso, DigestAlg: spec.DSScheme.Hash, Scheme: spec.DSScheme.scheme(),
		Signer: w.DSKey, SignerCert: w.DSCert, ExtraCerts: w.Extra, SIDForm: spec.SIDForm, SigningTime: signingTime(spec, w.SignTime),
		Indefinite: spec.Indefinite, IndefMask: int(spec.Seed % 8), HashNoParams: spec.HashNoParams,
	}
	if spec.NameVariant && spec.SIDForm != "ski" {
		sd.SIDIssuer = cscaName.Reordered(true)
	}
	w.SODSpec, w.LSO = sd, lso
	w.SOD = pki.BuildSignedData(sd, rng)
	w.LDS[chip.FidSOD] = pki.WrapSOD(w.SOD.DER)
	var comDGs []int
	for _, n := range w.DGOrder {
		comDGs = append(comDGs, n)
	}
	w.LDS[chip.FidCOM] = lds.COM(comDGs)
	w.MF[chip.FidDir] = lds.EFDIR()

	// ---- trust store
	pool := &cms.GenericCertPool{}
	for i := 0; i < spec.DecoyAnchors; i++ {
		dk := pki.NewECKey(12, rng, false)
		cc := lds.Countries[(spec.Country+1+i)%len(lds.Countries)][1]
		ski := pki.SKIOf(dk)
		if i%2 == 1 {
			ski = cscaSKI // same key identifier, other key, other country
		}
		dn := pki.CountryName(cc, "Decoy", "CSCA "+cc)
		dc := pki.Issue(pki.CertSpec{Serial: big.NewInt(int64(1000 + i)), Issuer: dn, Subject: dn, NotBefore: w.T0, NotAfter: cscaNotAfter, Key: dk, SKI: ski, AKI: ski, IsCA: true, PathLen: 0, KeyUsageBits: []int{pki.KUKeyCertSign}}, dk, pki.Scheme{Kind: "ecdsa", Hash: "SHA256"}, rng)
		if err := pool.Add(dc.DER); err != nil {
			panic("harness: decoy anchor rejected by pool: " + err.Error())
		}
	}
	if spec.SameSKIDecoy {
		dk := pki.NewECKey(12, rng, false)
		dc := pki.Issue(pki.CertSpec{Serial: big.NewInt(77), Issuer: cscaName, Subject: cscaName, NotBefore: cscaNotBefore, NotAfter: cscaNotAfter, Key: dk, SKI: cscaSKI, AKI: cscaSKI, IsCA: true, PathLen: 0, KeyUsageBits: []int{pki.KUKeyCertSign}}, dk, pki.Scheme{Kind: "ecdsa", Hash: "SHA256"}, rng)
		if err := pool.Add(dc.DER); err != nil {
			panic("harness: decoy anchor rejected by pool: " + err.Error())
		}
	}
	if !spec.Untrusted {
		if err := pool.Add(w.CSCACert.DER); err != nil {
			panic("harness: CSCA rejected by pool: " + err.Error())
		}
	}
	w.Pool = pool
	return w
}

func signingTime(spec WorldSpec, t time.Time) *time.Time {
	if spec.NoSigning {
		return nil
	}
	return &t
}

// PasswordFor builds the terminal's password object through the route named in the spec.
func (w *World) PasswordFor() (*password.Password, error) {
	switch w.Spec.Password {
	case "can":
		return password.NewPasswordCan(w.CAN), nil
	case "mrzi":
		return password.NewPasswordMrzi(w.Holder.DocNo, w.Holder.DOB, w.Holder.DOE)
	case "dg1":
		m, err := mrz.MrzDecode(w.Holder.MRZ())
		if err != nil {
			return nil, err
		}
		return password.NewPasswordMrzi(m.DocumentNumber, m.DateOfBirth, m.DateOfExpiry)
	default:
		return password.NewPasswordMrz(w.Holder.MRZ())
	}
}

// NewChip creates a fresh chip for this world.
func (w *World) NewChip() *chip.Chip {
	return chip.New(w.Pers, w.Spec.B, core.NewRng(core.SubSeed(w.Spec.Seed, "chip")))
}

// CSCAScheme2 returns the pki.Scheme the CSCA signs certificates with.
func (s WorldSpec) CSCAScheme2() pki.Scheme { return s.CSCAScheme.scheme() }

func indexOf(xs []int, v int) int {
	for i, x := range xs {
		if x == v {
			return i
		}
	}
	return 0
}
