// Package lds builds LDS1 files (EF.COM, DG1..DG16, EF.CardAccess, EF.DIR) and MRZs for the
// simulated issuer. Own code, written from ICAO 9303 parts 3-5 and 10.
package lds

import (
	"fmt"
	"strings"

	"verif/sim/core"
)

const mrzAlpha = "ABCDEFGHIJKLMNOPQRSTUVWXYZ"
const mrzAlnum = "0123456789ABCDEFGHIJKLMNOPQRSTUVWXYZ"

// CheckDigit per ICAO 9303-3 §4.9 (weights 7,3,1; 0-9 -> value, A-Z -> 10..35, '<' -> 0).
func CheckDigit(s string) string {
	w := [3]int{7, 3, 1}
	sum := 0
	for i := 0; i < len(s); i++ {
		c := s[i]
		v := 0
		switch {
		case c >= '0' && c <= '9':
			v = int(c - '0')
		case c >= 'A' && c <= 'Z':
			v = int(c-'A') + 10
		}
		sum += v * w[i%3]
	}
	return string(rune('0' + sum%10))
}

func pad(s string, n int) string {
	if len(s) > n {
		return s[:n]
	}
	return s + strings.Repeat("<", n-len(s))
}

// Holder is the data printed in the MRZ.
type Holder struct {
	Layout      string `json:"layout"` // TD1 | TD2 | TD3
	DocCode     string `json:"doc_code"`
	Issuer      string `json:"issuer"` // 3-letter
	Nationality string `json:"nationality"`
	Primary     string `json:"primary"`
	Secondary   string `json:"secondary"`
	DocNo       string `json:"doc_no"` // 1..9 chars, or longer (extended) for TD1/TD2
	DOB         string `json:"dob"`
	Sex         string `json:"sex"`
	DOE         string `json:"doe"`
	Optional    string `json:"optional"`
	Optional2   string `json:"optional2"`
}

// MrzInfo is MRZ_information for BAC/PACE: document number (with fillers to 9, or complete extended
// number) + cd, date of birth + cd, date of expiry + cd.
func (h Holder) MrzInfo() string {
	d := h.DocNo
	if len(d) < 9 {
		d = pad(d, 9)
	}
	return d + CheckDigit(d) + h.DOB + CheckDigit(h.DOB) + h.DOE + CheckDigit(h.DOE)
}

func (h Holder) name(n int) string {
	s := h.Primary
	if h.Secondary != "" {
		s += "<<" + h.Secondary
	}
	return pad(strings.ReplaceAll(s, " ", "<"), n)
}

// MRZ renders the machine readable zone.
func (h Holder) MRZ() string {
	docField := pad(h.DocNo, 9)
	docCD := CheckDigit(docField)
	extended := len(h.DocNo) > 9
	switch h.Layout {
	case "TD3":
		l1 := pad(h.DocCode, 2) + pad(h.Issuer, 3) + h.name(39)
		opt := pad(h.Optional, 14)
		optCD := CheckDigit(opt)
		if strings.Trim(opt, "<") == "" {
			optCD = "<"
		}
		l2 := docField + docCD + pad(h.Nationality, 3) + h.DOB + CheckDigit(h.DOB) + pad(h.Sex, 1) + h.DOE + CheckDigit(h.DOE) + opt + optCD
		comp := CheckDigit(l2[0:10] + l2[13:20] + l2[21:43])
		return l1 + l2 + comp
	case "TD2":
		l1 := pad(h.DocCode, 2) + pad(h.Issuer, 3) + h.name(31)
		opt := pad(h.Optional, 7)
		if extended {
			docField = h.DocNo[:9]
			docCD = "<"
			rest := h.DocNo[9:]
			opt = pad(rest+CheckDigit(h.DocNo)+"<"+h.Optional, 7)
		}
		l2 := docField + docCD + pad(h.Nationality, 3) + h.DOB + CheckDigit(h.DOB) + pad(h.Sex, 1) + h.DOE + CheckDigit(h.DOE) + opt
		comp := CheckDigit(l2[0:10] + l2[13:20] + l2[21:35])
		return l1 + l2 + comp
	default: // TD1
		opt := pad(h.Optional, 15)
		if extended {
			docField = h.DocNo[:9]
			docCD = "<"
			rest := h.DocNo[9:]
			opt = pad(rest+CheckDigit(h.DocNo)+"<"+h.Optional, 15)
		}
		l1 := pad(h.DocCode, 2) + pad(h.Issuer, 3) + docField + docCD + opt
		l2 := h.DOB + CheckDigit(h.DOB) + pad(h.Sex, 1) + h.DOE + CheckDigit(h.DOE) + pad(h.Nationality, 3) + pad(h.Optional2, 11)
		comp := CheckDigit(l1[5:30] + l2[0:7] + l2[8:15] + l2[18:29])
		return l1 + l2 + comp + h.name(30)
	}
}

func randStr(r *core.Rng, alphabet string, n int) string {
	b := make([]byte, n)
	for i := range b {
		b[i] = alphabet[r.Intn(len(alphabet))]
	}
	return string(b)
}

func randDate(r *core.Rng) string {
	return fmt.Sprintf("%02d%02d%02d", r.Intn(100), 1+r.Intn(12), 1+r.Intn(28))
}

// Countries used by generated worlds: (alpha-3 in the MRZ, alpha-2 in certificates).
var Countries = [][2]string{{"NLD", "NL"}, {"FRA", "FR"}, {"SGP", "SG"}, {"NZL", "NZ"}, {"AUT", "AT"}, {"D<<", "DE"}, {"ESP", "ES"}}

// RandomHolder draws a well-formed holder record; layout "" = random.
func RandomHolder(r *core.Rng, layout string, issuer3 string) Holder {
	if layout == "" {
		layout = core.Pick(r, []string{"TD1", "TD2", "TD3", "TD3"})
	}
	h := Holder{Layout: layout, Issuer: issuer3, Nationality: issuer3, DOB: randDate(r), DOE: randDate(r), Sex: core.Pick(r, []string{"M", "F", "<"})}
	if r.Chance(1, 8) {
		// unknown (parts of the) date of birth are filled with '<' (9303-3 4.8; the check digit counts them as 0)
		h.DOB = core.Pick(r, []string{h.DOB[:4] + "<<", h.DOB[:2] + "<<<<", "<<<<<<"})
	}
	switch layout {
	case "TD3":
		h.DocCode = core.Pick(r, []string{"P<", "PM", "PD"})
	default:
		h.DocCode = core.Pick(r, []string{"I<", "ID", "AC", "C<"})
	}
	h.Primary = randStr(r, mrzAlpha, r.Range(1, 12))
	if r.Chance(4, 5) {
		h.Secondary = randStr(r, mrzAlpha, r.Range(1, 8))
		if r.Chance(1, 3) {
			h.Secondary += " " + randStr(r, mrzAlpha, r.Range(1, 5))
		}
	}
	switch r.Intn(5) {
	case 0:
		h.DocNo = randStr(r, mrzAlnum, r.Range(1, 8)) // short: fillers
	case 1:
		if layout != "TD3" {
			max := 3
			if layout == "TD1" {
				max = 10
			}
			h.DocNo = randStr(r, mrzAlnum, 9+r.Range(1, max)) // extended
			break
		}
		fallthrough
	default:
		h.DocNo = randStr(r, mrzAlnum, 9)
	}
	if strings.HasSuffix(h.DocNo, "<") {
		h.DocNo = h.DocNo[:len(h.DocNo)-1] + "X"
	}
	// a filler INSIDE the number (a space or hyphen of the visual zone; Doc 9303-3 4.3): about one holder in 18, derived
	// from the characters already drawn (no extra draw: the rest of the stream stays as it was). Only within the
	// first nine characters - in the continuation of an extended number a filler would end the number.
	if n := min(len(h.DocNo), 9); n >= 3 && (h.DocNo[1] == '0' || h.DocNo[1] == '1') {
		i := 1 + int(h.DocNo[0])%(n-2)
		h.DocNo = h.DocNo[:i] + "<" + h.DocNo[i+1:]
	}
	if r.Chance(1, 2) {
		n := map[string]int{"TD1": 15, "TD2": 7, "TD3": 14}[layout]
		if len(h.DocNo) > 9 {
			n -= len(h.DocNo) - 9 + 2
		}
		if n > 0 {
			h.Optional = randStr(r, mrzAlnum, r.Range(1, n))
		}
	}
	if layout == "TD1" && r.Chance(1, 2) {
		h.Optional2 = randStr(r, mrzAlnum, r.Range(1, 11))
	}
	return h
}
