package lds

import (
	"encoding/binary"
	"math/big"

	"verif/sim/core"
	"verif/sim/der"
)

func tlv(tag int, val []byte) []byte {
	var out []byte
	switch {
	case tag > 0xFFFF:
		out = append(out, byte(tag>>16), byte(tag>>8), byte(tag))
	case tag > 0xFF:
		out = append(out, byte(tag>>8), byte(tag))
	default:
		out = append(out, byte(tag))
	}
	out = append(out, der.Len(len(val))...)
	return append(out, val...)
}

func cat(parts ...[]byte) []byte {
	var b []byte
	for _, p := range parts {
		b = append(b, p...)
	}
	return b
}

// DG1 wraps the MRZ.
func DG1(mrz string) []byte { return tlv(0x61, tlv(0x5F1F, []byte(mrz))) }

// DGTag returns the application tag of data group n.
func DGTag(n int) int {
	return map[int]int{1: 0x61, 2: 0x75, 3: 0x63, 4: 0x76, 5: 0x65, 6: 0x66, 7: 0x67, 8: 0x68, 9: 0x69, 10: 0x6A, 11: 0x6B, 12: 0x6C, 13: 0x6D, 14: 0x6E, 15: 0x6F, 16: 0x70}[n]
}

// COM builds EF.COM.
func COM(dgs []int) []byte {
	var tags []byte
	for _, n := range dgs {
		tags = append(tags, byte(DGTag(n)))
	}
	return tlv(0x60, cat(tlv(0x5F01, []byte("0107")), tlv(0x5F36, []byte("040000")), tlv(0x5C, tags)))
}

// StubJPEG is n bytes that start like a JFIF image (content is irrelevant to the library).
func StubJPEG(r *core.Rng, n int) []byte {
	if n < 4 {
		n = 4
	}
	b := r.Bytes(n)
	copy(b, []byte{0xFF, 0xD8, 0xFF, 0xE0})
	return b
}

// StubJP2 is n bytes that start like a JPEG 2000 codestream.
func StubJP2(r *core.Rng, n int) []byte {
	if n < 4 {
		n = 4
	}
	b := r.Bytes(n)
	copy(b, []byte{0xFF, 0x4F, 0xFF, 0x51})
	return b
}

// FacialRecord builds an ISO/IEC 19794-5 facial record with the given images.
func FacialRecord(r *core.Rng, images [][]byte, points int) []byte {
	var body []byte
	for _, img := range images {
		fi := make([]byte, 20)
		binary.BigEndian.PutUint32(fi[0:], uint32(20+12+8*points+len(img)))
		binary.BigEndian.PutUint16(fi[4:], uint16(points))
		fi[6] = byte(r.Intn(3))
		body = append(body, fi...)
		for i := 0; i < points; i++ {
			body = append(body, 1, byte(r.Intn(16)), byte(r.Intn(16)), 0, byte(r.Intn(200)), 0, byte(r.Intn(200)), 0)
		}
		ii := make([]byte, 12)
		ii[0], ii[1] = 1, 0 // full frontal, JPEG
		binary.BigEndian.PutUint16(ii[2:], 480)
		binary.BigEndian.PutUint16(ii[4:], 640)
		ii[6] = 1
		body = append(body, ii...)
		body = append(body, img...)
	}
	hdr := []byte{'F', 'A', 'C', 0, '0', '1', '0', 0, 0, 0, 0, 0, 0, 0}
	binary.BigEndian.PutUint32(hdr[8:], uint32(14+len(body)))
	binary.BigEndian.PutUint16(hdr[12:], uint16(len(images)))
	return append(hdr, body...)
}

// DG2 with one biometric information template per entry of templates (each a list of images).
func DG2(r *core.Rng, templates [][][]byte) []byte {
	inner := tlv(0x02, []byte{byte(len(templates))})
	for _, imgs := range templates {
		bht := tlv(0xA1, cat(tlv(0x80, []byte{1, 1}), tlv(0x81, []byte{2}), tlv(0x87, []byte{1, 1}), tlv(0x88, []byte{0, 8})))
		inner = append(inner, tlv(0x7F60, cat(bht, tlv(0x5F2E, FacialRecord(r, imgs, r.Intn(3)))))...)
	}
	return tlv(0x75, tlv(0x7F61, inner))
}

// DG7 displayed signature images.
func DG7(images [][]byte) []byte {
	inner := tlv(0x02, []byte{byte(len(images))})
	for _, img := range images {
		inner = append(inner, tlv(0x5F43, img)...)
	}
	return tlv(0x67, inner)
}

// DG11 additional personal details (9303-10 table 71): a seeded subset of the defined objects; other names either in
// the conformant A0 template (count + repeated 5F0F) or, as seen on real documents, as 5F0F objects directly under the root.
func DG11(r *core.Rng) []byte {
	name := func() string { return randStr(r, mrzAlpha, r.Range(2, 10)) + "<<" + randStr(r, mrzAlpha, r.Range(2, 10)) }
	var tags []byte
	var body []byte
	add := func(tag int, val []byte) {
		tags = append(tags, byte(tag>>8), byte(tag))
		body = append(body, tlv(tag, val)...)
	}
	add(0x5F0E, []byte(name()))
	switch r.Intn(4) {
	case 0: // conformant other names
		n := r.Range(1, 3)
		inner := tlv(0x02, []byte{byte(n)})
		for i := 0; i < n; i++ {
			inner = append(inner, tlv(0x5F0F, []byte(name()))...)
		}
		tags = append(tags, []byte{0x5F, 0x0F}...)
		if r.Bool() {
			tags = append(tags[:len(tags)-2], 0xA0)
		}
		body = append(body, tlv(0xA0, inner)...)
	case 1: // other names directly under the root
		for i, n := 0, r.Range(1, 2); i < n; i++ {
			body = append(body, tlv(0x5F0F, []byte(name()))...)
		}
		tags = append(tags, 0x5F, 0x0F)
	}
	add(0x5F10, []byte(randStr(r, mrzAlnum, r.Range(1, 14))))
	if r.Bool() {
		add(0x5F2B, []byte("19740812"))
	}
	if r.Bool() {
		add(0x5F11, []byte(randStr(r, mrzAlpha, 6)+"<"+randStr(r, mrzAlpha, 4)))
	}
	if r.Bool() {
		add(0x5F42, []byte("STREET<"+randStr(r, mrzAlnum, 5)+"<CITY"))
	}
	if r.Chance(1, 3) {
		add(0x5F12, []byte("0123456789"))
	}
	if r.Chance(1, 3) {
		add(0x5F13, []byte(randStr(r, mrzAlpha, 8)))
	}
	if r.Chance(1, 4) {
		add(0x5F14, []byte("DR"))
	}
	if r.Chance(1, 4) {
		add(0x5F17, []byte(randStr(r, mrzAlnum, 9)+"<"+randStr(r, mrzAlnum, 9)))
	}
	return tlv(0x6B, cat(tlv(0x5C, tags), body))
}

// DG12 additional document details (9303-10 table 72), a seeded subset incl. other persons in the A0 template.
func DG12(r *core.Rng) []byte {
	var tags []byte
	var body []byte
	add := func(tag int, val []byte) {
		tags = append(tags, byte(tag>>8), byte(tag))
		body = append(body, tlv(tag, val)...)
	}
	add(0x5F19, []byte(randStr(r, mrzAlpha, r.Range(3, 20))))
	add(0x5F26, []byte("20200131"))
	if r.Chance(1, 3) {
		n := r.Range(1, 3)
		inner := tlv(0x02, []byte{byte(n)})
		for i := 0; i < n; i++ {
			inner = append(inner, tlv(0x5F1A, []byte(randStr(r, mrzAlpha, 5)+"<<"+randStr(r, mrzAlpha, 4)))...)
		}
		tags = append(tags, 0x5F, 0x1A)
		body = append(body, tlv(0xA0, inner)...)
	}
	if r.Bool() {
		add(0x5F1B, []byte(randStr(r, mrzAlnum, r.Range(1, 30))))
	}
	if r.Chance(1, 3) {
		add(0x5F1C, []byte(randStr(r, mrzAlnum, 8)))
	}
	if r.Chance(1, 3) {
		add(0x5F55, []byte("20200131093000"))
	}
	if r.Chance(1, 3) {
		add(0x5F56, []byte(randStr(r, mrzAlnum, 12)))
	}
	return tlv(0x6C, cat(tlv(0x5C, tags), body))
}

// DG13 optional details (opaque).
func DG13(r *core.Rng, n int) []byte { return tlv(0x6D, tlv(0x04, r.Bytes(n))) }

// DG16 persons to notify.
func DG16(r *core.Rng) []byte {
	n := r.Range(1, 3)
	body := tlv(0x02, []byte{byte(n)})
	for i := 1; i <= n; i++ {
		body = append(body, tlv(0xA0+i, cat(tlv(0x5F50, []byte("20200131")), tlv(0x5F51, []byte(randStr(r, mrzAlpha, 6)+"<<"+randStr(r, mrzAlpha, 4))), tlv(0x5F52, []byte("12345678")), tlv(0x5F53, []byte("STREET<CITY"))))...)
	}
	return tlv(0x70, body)
}

// DG15 wraps the AA SubjectPublicKeyInfo.
func DG15(spki []byte) []byte { return tlv(0x6F, spki) }

// DG14 wraps SecurityInfos.
func DG14(secInfos []byte) []byte { return tlv(0x6E, secInfos) }

// OpaqueDG builds a data group the library does not parse (DG3, DG4, ...).
func OpaqueDG(r *core.Rng, n int, size int) []byte { return tlv(DGTag(n), r.Bytes(size)) }

// EFDIR with the LDS1 application template.
func EFDIR() []byte {
	return tlv(0x61, cat(tlv(0x4F, []byte{0xA0, 0x00, 0x00, 0x02, 0x47, 0x10, 0x01}), tlv(0x50, []byte("eMRTD"))))
}

// ---- SecurityInfos

func PACEInfo(oid []int, paramID int) []byte {
	return der.Seq(der.OID(oid...), der.IntI(2), der.IntI(int64(paramID)))
}

// PACEInfoNoParam omits the parameter id (legal only with explicit domain parameters).
func PACEInfoNoParam(oid []int) []byte { return der.Seq(der.OID(oid...), der.IntI(2)) }

func ChipAuthInfo(oid []int, keyID *int64) []byte {
	parts := [][]byte{der.OID(oid...), der.IntI(1)}
	if keyID != nil {
		parts = append(parts, der.Int(big.NewInt(*keyID)))
	}
	return der.Seq(parts...)
}

func ChipAuthPubKeyInfo(pkOID []int, spki []byte, keyID *int64) []byte {
	parts := [][]byte{der.OID(pkOID...), spki}
	if keyID != nil {
		parts = append(parts, der.Int(big.NewInt(*keyID)))
	}
	return der.Seq(parts...)
}

// StdDomainSPKI: SubjectPublicKeyInfo with algorithm standardizedDomainParameters (bsi-de 1 2) and the
// parameter id as parameters (9303-11 §9.2.? / TR-03110-3 A.2.1.1).
func StdDomainSPKI(paramID int, point []byte) []byte {
	return der.Seq(der.Seq(der.OID(0, 4, 0, 127, 0, 7, 1, 2), der.IntI(int64(paramID))), der.BitString(point))
}

func ActiveAuthInfo(sigAlg []int) []byte {
	return der.Seq(der.OID(2, 23, 136, 1, 1, 5), der.IntI(1), der.OID(sigAlg...))
}

func TerminalAuthInfo() []byte {
	return der.Seq(der.OID(0, 4, 0, 127, 0, 7, 2, 2, 2), der.IntI(1))
}

// UnknownInfo is a SecurityInfo with an OID the library does not know.
func UnknownInfo(r *core.Rng) []byte {
	return der.Seq(der.OID(1, 3, 6, 1, 4, 1, 99999, 2, r.Range(1, 200)), der.IntI(int64(r.Intn(5))))
}

// SecurityInfos is the SET OF SecurityInfo. ordered=false keeps the given order (BER).
func SecurityInfos(infos [][]byte, derSorted bool) []byte {
	if derSorted {
		return der.Set(infos...)
	}
	return der.SetUnsorted(infos...)
}

// EcdsaPlainOID returns ecdsa-plain-SHAxxx (bsi-de 1 1 4 1 n).
func EcdsaPlainOID(hash string) []int {
	n := map[string]int{"SHA1": 1, "SHA224": 2, "SHA256": 3, "SHA384": 4, "SHA512": 5}[hash]
	return []int{0, 4, 0, 127, 0, 7, 1, 1, 4, 1, n}
}
