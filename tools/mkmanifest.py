#!/usr/bin/env python3
"""Regenerates /verif/MANIFEST.json from the table below (keeps it valid at all times)."""
import json, os
HERE = os.path.dirname(os.path.dirname(os.path.abspath(__file__)))

NOTE_COMMON = ("Trusted base: Go standard library crypto primitives (DES, AES, SHA, math/big, crypto/elliptic point arithmetic) and the brainpool curve "
               "parameters, shared by gmrtd and the reference chip; the reference chip/issuer are models of the specifications written independently of gmrtd's encoders. "
               "A clean batch is evidence over the sampled seeds, not proof.")

CHECKS = {
 "C13": dict(engine="readfile", cat="exploration", ref="DESIGN.md 6.13",
   technique="deterministic simulation: seeded reference-chip I/O-splitting behaviours against the real ReadFile",
   text="Seeded simulation of the real NfcSession.ReadFile (plain and under secure messaging) against the reference chip under every response-splitting behaviour "
        "(size caps, short answers, Le caps, extended length off, EOF warnings, SFI semantics for P1>=0x80, sibling files) over file sizes banded around every length/offset boundary and maxLe 1..65536; "
        "oracle: exactly the stored bytes, or an error; not-found only if the chip said so; bounded READ BINARY count. A deterministic grid precedes the seeded part: files of 2-8 bytes x chips answering 1-4 bytes x read sizes, and reads that start exactly on offset 0x8000 / 0x10000 (read sizes dividing 0x8000-4, or a short first block). Sampling, not proof."),
 "C03": dict(engine="smduel-resp", cat="fault_enumeration", ref="DESIGN.md 6.3",
   technique="deterministic simulation with an active on-path adversary: enumerated and seeded forged response deliveries over session histories, reference chip as oracle",
   text="Real SecureMessaging/NfcSession against the reference chip's own secure messaging over seeded histories; at one exchange an active adversary delivers a forged response. Every single-bit flip and every truncation of short responses is enumerated per suite; "
        "DO deletion/duplication/reordering/re-encoding, SW mismatch, replays of earlier genuine responses, the next exchange's response, cross-session, re-wrap under another counter, plaintext, bare status, random and empty responses are seeded. "
        "Oracle: anything accepted must equal exactly what the chip authenticated for that exchange. Added after the seeded-change waves: short / empty / prefix MAC objects, additional well-formed data objects with an already present tag (after, before, between the genuine ones), multi-step plans (bare status words followed by the withheld or a replayed response). One known finding (naked-then-stale) is listed in known_findings.json."),
 "C10": dict(engine="smduel-cmd", cat="exploration", ref="DESIGN.md 6.10",
   technique="deterministic simulation: seeded command histories unwrapped by an independent chip-side implementation, SSC lockstep invariant after every exchange",
   text="Seeded histories of 1-2000 commands through the real NfcSession.DoAPDU with a session installed; every wire command is parsed by a strict ISO 7816-4 parser and authenticated/decrypted by the reference chip (CLA 0C, DO87/85 by INS parity, DO97 iff Le and equal to it, MAC under chip SSC+1, Le 00/0000), "
        "and terminal SSC = chip SSC is checked after every exchange incl. protected error statuses, counter wrap and transport-level rejections."),
 "C12": dict(engine="smduel-resp (+ hostile engines)", cat="exploration", ref="DESIGN.md 6.12",
   technique="deterministic simulation with byzantine chip / link / store feeding the parsers through the real seams; crash, step-bound and allocation monitors",
   text="Boundary-scoped: adversarial bytes reach the parsers only as a chip or stored blob can deliver them (responses through the Transceiver seam, blobs through Verify). Monitors: panic, worker death re-executed alone, deterministic step bounds, bytes allocated per call against a linear budget. Also: nesting up to 14 000 definite-length levels, each file constructor measured alone against 1 MiB + 1 KiB per input byte, key-holder RSA signatures over short recoverable messages (live and in stored evidence), hostile answers to INTERNAL / EXTERNAL AUTHENTICATE (proto-aa, proto-bac engines)."),
 "C08": dict(engine="e2e", cat="exploration", ref="DESIGN.md 6.8",
   technique="deterministic simulation: whole reader.ReadDocument against seeded chip personalisations and issuer worlds, reference-model oracle of the expected outcome",
   text="The complete unmodified read pipeline runs against a generated world (SimPKI issuer, personalised SimChip, trust store) stratified over access control x curve x suite, with seeded DG subsets/sizes, chip response policies, terminal maxLe, password routes, AA/CA arrangements and all session randomness. "
        "Oracle: every returned file byte-identical to the chip's; every supported DG listed and stored has been read; each supported mechanism successful (CA may be skipped after AA/CAM); nothing unsupported reported; PA success iff the chain is in the store; success required only inside the tolerated read-size envelope."),
 "C11": dict(engine="e2e-faults", cat="fault_enumeration", ref="DESIGN.md 6.11",
   technique="deterministic simulation with link fault injection: every exchange index x every fault variant enumerated per chip configuration, then seeded multi-fault plans",
   text="For each of 12 chip configurations the fault-free read fixes the exchange count; every exchange index x 45 link fault variants (loss, truncation, garble, oversize, bare status words, replay, swap, SM data-object edits, chip power cycle, dead link) is run as its own simulation (quick: 3 configurations rotating with the seed; thorough: all 12), followed by seeded 2-5 fault plans biased to protocol transitions. "
        "Oracle: the call returns within the step bound, never panics; files read under secure messaging that are returned equal the chip's files; reported successes are steps the chip's own session record shows completed; DataTrusted only with identical files from a trusted issuer. Added after the seeded-change waves: quick runs every configuration (the three rotating ones with the full grid, the others with a reduced grid); a read that completes without any recorded failure must hold every LDS file the fault-free read returns; single-file reads (NfcSession.ReadFile, clear and under each suite, all chunking behaviours) with one or two link faults - under secure messaging any differing file is a violation, in the clear only when a response longer than the requested Le was accepted."),
 "C14": dict(engine="store-verify", cat="fault_enumeration", ref="DESIGN.md 6.14",
   technique="deterministic simulation: live session -> store -> offline verifier, with a byzantine store enumerating a rewrite of every evidence field and file",
   text="A live simulated session (CA over every curve/suite/key-id arrangement, PACE-CAM, AA RSA/ECDSA) is exported, passed through the simulated store and verified offline with the same trust store: PA, completeness and each mechanism verdict must equal the live ones. "
        "Then the byzantine store rewrites every evidence field in turn (value-changing mutations, absent/one-byte/oversized variants, other valid points/OIDs/parameter ids, counter +-1) and every hashed file / authenticated SOD region, recomputing all envelope checksums: the corresponding verdict must not be successful; the documented PACE-CAM joint replacement is generated and is the only accepted exception."),
 "C15": dict(engine="store-corrupt", cat="fault_enumeration", ref="DESIGN.md 6.15",
   technique="deterministic simulation of bytes at rest: complete enumeration of single-byte substitutions, truncations and extensions per exported blob, plus byzantine envelope rewrites",
   text="Per exported blob (both Document and DocumentEx forms, seeded file subsets, real and synthetic evidence of each kind) the fault-free round trip must reproduce file set, bytes, parsed JSON view and evidence; then every byte position x {xor 01, xor 80, 00, FF} (all values on the envelope head and tail), every truncation length, extensions, foreign magics and newer versions at each nesting level are applied: the import must be rejected or yield exactly the original content."),
 "C01": dict(engine="pki-forgery (+ store-verify)", cat="exploration", ref="DESIGN.md 6.1",
   technique="deterministic simulation of byzantine parties (issuer, chip file store, trust-store operator) and at-rest corruption, with by-construction verdicts from the issuer's region map",
   text="Each run builds a genuine world with the simulated issuer (accepted first), then applies exactly one forgery or drift fault (A1-A10: DG flips/replacement/injection, altered hash list, re-signing by untrusted chains in five variants, anchor and DS attribute faults, signing time outside a validity window by seconds, country mismatch, the same on CardSecurity, master list faults, random byte substitutions classified by region) and takes the verdict through the real PassiveAuth / CreateCertPoolFromSignedData and, in the store engine, the offline verifier. Acceptance in a must-reject class is the violation. "
        "Applicability note: the deciding faults are byzantine behaviour of parties and corruption of durable state, not arbitrary byte strings (DESIGN.md 6.1). Master lists forged by a party outside the supplied root that ships its own anchor (own CA listed and embedded; self-issued CA-capable signer) must be rejected."),
 "C02": dict(engine="hostile-chip + session-sweep", cat="exploration", ref="DESIGN.md 6.2",
   technique="deterministic simulation of adversarial chips end to end (live and offline) plus exhaustive sweep of the step-outcome combinations against the gating invariant",
   text="Ten adversarial chip personalisations (clones without keys, substituted AA/CA/CAM keys with untouched or untrusted-re-signed SOD, withheld DG14/DG15, CardAccess not contained in DG14, CardSecurity that does not verify) crossed with trusted/untrusted issuers are read end to end, then the serialised result is verified offline; the summary must not be trusted / chip-authentic as the statement lists. "
        "The gating invariant (DataTrusted => PA and completeness; named mechanism => that protocol, PA, and CardSec for CAM) is evaluated on every DocumentEx and swept over all 324 outcome combinations. Hash lists of the security object in every order (ascending, descending, shuffled, one adjacent swap, one entry at the end) so that a withheld DG14/DG15 is looked up behind larger numbers."),
 "C09": dict(engine="pki-profile", cat="exploration", ref="DESIGN.md 6.9",
   technique="deterministic simulation of the issuer over the issuing-profile matrix (fault-free twin of C01)",
   text="The simulated issuer (own X.509/CMS writers and signers) issues documents over the profile matrix - CSCA and DS keys RSA 1024-4096 / all 11 curves named and explicit, PKCS#1 v1.5 / PSS / ECDSA, SHA-1..SHA-512, both SID forms, LDS SO v0/v1, signing time absent / inside / exactly at the DS and CSCA window edges, NULL-less digest identifiers, indefinite lengths, extra certificates, re-ordered or UTF8 names, decoy and same-key-identifier anchors, CardSecurity - and the real PassiveAuth must succeed and return the [DS, CSCA] chain. Validity-neutral variations are drawn independently of each other: re-encoded issuer name in the signer identifier, additional embedded certificates before or after the signer's, embedded CSCA certificate, hash list order."),
 "C04": dict(engine="proto-pace", cat="exploration", ref="DESIGN.md 6.4",
   technique="deterministic simulation: real PACE against the reference chip over the full suite x curve x mapping matrix with ground edge slices, plus an on-path adversary altering exactly one chip message",
   text="Real pace.DoPACE over a real NfcSession against the reference chip (own KDF, nonce encryption, generic mapping, tokens, CAM data) for every parameter id 8-18 x suite x GM/CAM, all password routes and MRZ layouts, seeded nonces and ephemerals, shared secrets / public coordinates ground to leading zero octets, several and unsupported PACE infos. Genuine: success, identical session keys and counter on both sides, next protected exchange authenticates. "
        "Faulted twins (wrong password; one altered/omitted nonce, mapping key, agreement key, token, CAM data): failure, no session installed, CAM never successful."),
 "C05": dict(engine="proto-bac", cat="exploration", ref="DESIGN.md 6.5",
   technique="deterministic simulation: real BAC against the reference chip personalised from the same MRZ, with enumerated and seeded hostile cryptograms",
   text="Real bac.DoBAC against the reference chip (own MRZ_information, KDF with parity, retail MAC) for all MRZ layouts, filler and extended document numbers and every password route, all randoms seeded incl. counters about to wrap with traffic across the wrap: success and identical session state. "
        "Hostile EXTERNAL AUTHENTICATE answers - all 320 single-bit mutations, other-MRZ keys, replay from another run, correct MAC over wrong echoes (key-knowing adversary), wrong lengths - must fail and install no session."),
 "C06": dict(engine="proto-ca (+ proto-pace for the CAM leg)", cat="exploration", ref="DESIGN.md 6.6",
   technique="deterministic simulation: real Chip Authentication against the key-holding reference chip over curves x suites x key-id arrangements, and against impostor chips",
   text="Real chipauth.DoChipAuth inside an installed session against the reference chip holding the DG14 key: 11 curves x named/explicit x {suite inferred (MSE:Set KAT), info, key id, two keys, two suites}, terminal ephemerals ground to leading-zero shared secrets: success, identical new keys, counter restarted, later traffic under the new keys. "
        "Impostors without the key (own key pair, no key switch, unprotected 9000, transcript replay) are never successful. The CAM leg runs in the PACE engine."),
 "C07": dict(engine="proto-aa", cat="exploration", ref="DESIGN.md 6.7",
   technique="deterministic simulation: real Active Authentication against the reference signer and an adversarial chip answer, reference verifier as oracle",
   text="Real activeauth.DoActiveAuth inside an installed session against the reference signer (own ISO 9796-2 and ECDSA): RSA 1024-4096 x five trailers x M1 policies, ECDSA on 11 curves plain and DER, supplied challenges: genuine accepted, challenge transmitted and recorded. "
        "Adversarial answers (bit flips, other challenge, other key, range violations, malleable n-s, digest over M1 only, wrong trailers, trailing bytes, random) are accepted only if the reference verifier confirms a valid signature over exactly the challenge sent; offline nonce binding is checked in the store engine. Offline nonce binding (store engine under this property): live reads with a caller-supplied challenge are exported and verified offline against a rewritten / truncated / extended recorded nonce or another challenge, with and without a broken signature; every mismatch must be a hard error of Verify. Key-holder signatures over short or oddly framed recoverable messages must be rejected without a panic."),
 "C20": dict(engine="sched", cat="exploration", ref="DESIGN.md 6.20",
   technique="deterministic simulation of caller threads: seeded cooperative scheduler choosing who runs at every yield point, in a race-detector build, with porcupine linearizability against sequential re-execution",
   text="2-4 real goroutines with scripts of public API calls run under the seeded scheduler (one released at a time; yield points inside gmrtd's critical sections: Transceive, status callback, slog, crypto/rand.Reader, CertPool; hand-offs hidden from the race detector so only gmrtd's locks order the workers). Scenarios: shared reader.Reader, shared verifier.Verifier, independent instances sharing each CertPool type, mobile bindings with concurrent first use of the built-in trust store in a fresh process. "
        "Oracles: zero race reports; the recorded history is linearizable w.r.t. the real code executed alone on a fresh world with the same per-operation randomness; independent instances equal their lone execution; master lists loaded once; no deadlock. Yield points also inside the library: run.sh instruments a scratch copy of the tree under test (go/ast, a yield call at every function and loop body of reader, verifier, mobile, cms, passiveauth, document) and builds the simulator against it; /repo itself carries no hook. Calls can be started eagerly (inside another call's critical section: in the library as it is they block and are handed the mutex at the first scheduling point after the holder's call ended) and with a seeded start delay, so that a configuration call falls anywhere inside a long read; three quarters of the shared-reader runs are one reader plus configuring workers; the combined trust-store type gets half of the runs; 256 schedules in the quick tier."),
}

NOT_APPLICABLE = {
 "C16": "pure codec algebra over a byte string (decode/encode round trips): no peer, schedule, clock or fault for a simulator to own; grammar-based generation would be property-based testing, not simulation (DESIGN.md 7)",
 "C17": "pure length-encoding function of a header and two integers, quantified over a length grid: input enumeration, nothing to simulate (DESIGN.md 7)",
 "C18": "pure string functions (check digits, key-seed routes): no schedule, fault or history (DESIGN.md 7)",
 "C19": "pure decoding equality over generated files; needs a reference decoder and a generator, nothing a simulator adds (DESIGN.md 7)",
}
PENDING = {}

def main():
    props = [json.loads(l)["id"] for l in open(os.path.join(HERE, "properties.jsonl"))]
    checks = []
    for pid in props:
        if pid not in CHECKS:
            continue
        c = CHECKS[pid]
        checks.append({
            "property_id": pid,
            "quick_cmd": f"./run.sh {pid} quick",
            "thorough_cmd": f"./run.sh {pid} thorough",
            "evidence_file": f"/verif/evidence/{pid}.json",
            "replay_cmd_template": "./run.sh replay {path}",
            "engine": c["engine"],
            "level_claimed": {"category": c["cat"], "text": c["text"], "design_ref": c["ref"]},
            "level_note": c.get("note", NOTE_COMMON),
            "technique": c["technique"],
        })
    na = []
    for pid in props:
        if pid in CHECKS:
            continue
        if pid in NOT_APPLICABLE:
            na.append({"property_id": pid, "reason": NOT_APPLICABLE[pid]})
        else:
            na.append({"property_id": pid, "reason": PENDING.get(pid, "not claimed yet: the simulation engine for this property is still being built (planned in DESIGN.md section 6); no check is registered, so nothing is asserted")})
    m = {
        "version": 1,
        "setup_cmd": "./run.sh build",
        "hooks": {
            "guard": "verif",
            "enable": "no hooks are needed: every seam used (iso7816.Transceiver, crypto/rand.Reader, slog default handler, reader.ReaderStatus, cms.CertPool) is a public interface or process-global of the unmodified library; checks build /repo as is via the replace directive in sim/go.mod",
            "baseline_off_cmd": "cd /repo && GOFLAGS=-mod=mod GOPROXY=off go test -vet=off -count=1 ./...",
            "source_commits": [],
            "add_only": True,
        },
        "engines": [
            {"name": "smduel-resp", "path": "sim/engines/smduel.go", "serves_properties": ["C03", "C12"], "kind_free_text": "deterministic simulation: real secure messaging vs reference chip SM with an active adversary on responses"},
            {"name": "smduel-cmd", "path": "sim/engines/smduel.go", "serves_properties": ["C10"], "kind_free_text": "deterministic simulation: command histories unwrapped by the reference chip, SSC lockstep invariant"},
            {"name": "e2e", "path": "sim/engines/e2e.go", "serves_properties": ["C08"], "kind_free_text": "deterministic simulation: full read against SimChip + SimPKI world"},
            {"name": "e2e-faults", "path": "sim/engines/e2efaults.go", "serves_properties": ["C11"], "kind_free_text": "deterministic simulation with per-exchange link fault plans over the full read"},
            {"name": "store-verify", "path": "sim/engines/storeeng.go", "serves_properties": ["C14"], "kind_free_text": "deterministic simulation: capture -> simulated store (byzantine rewrite) -> offline verifier"},
            {"name": "store-corrupt", "path": "sim/engines/storeeng.go", "serves_properties": ["C15"], "kind_free_text": "deterministic simulation of bytes at rest: bit-rot, torn writes, extension, envelope rewrite"},
            {"name": "pki-forgery", "path": "sim/engines/pkiworld.go", "serves_properties": ["C01"], "kind_free_text": "byzantine issuer / chip / trust-store operator faults with by-construction verdicts"},
            {"name": "pki-profile", "path": "sim/engines/pkiworld.go", "serves_properties": ["C09"], "kind_free_text": "fault-free issuing-profile matrix"},
            {"name": "hostile-chip", "path": "sim/engines/hostile.go", "serves_properties": ["C02"], "kind_free_text": "adversarial chip personalisations read end to end, live and offline; plus session-sweep"},
            {"name": "proto-pace", "path": "sim/engines/protoduel.go", "serves_properties": ["C04", "C06"], "kind_free_text": "real PACE vs reference chip, with on-path adversary"},
            {"name": "proto-bac", "path": "sim/engines/protoduel.go", "serves_properties": ["C05"], "kind_free_text": "real BAC vs reference chip, hostile cryptograms"},
            {"name": "proto-ca", "path": "sim/engines/protoduel.go", "serves_properties": ["C06"], "kind_free_text": "real CA vs key-holding chip and impostors"},
            {"name": "proto-aa", "path": "sim/engines/protoduel.go", "serves_properties": ["C07"], "kind_free_text": "real AA vs reference signer and adversarial answers"},
            {"name": "sched", "path": "sim/engines/schedeng.go + sim/sched", "serves_properties": ["C20"], "kind_free_text": "seeded cooperative scheduler over caller goroutines, race-detector build, porcupine"},
            {"name": "readfile", "path": "sim/engines/readfile.go", "serves_properties": ["C13"], "kind_free_text": "deterministic simulation: real ReadFile vs reference chip with response-splitting behaviours"},
        ],
        "checks": checks,
        "not_applicable": na,
        "notes": "All checks: ./run.sh <id> <quick|thorough> rebuilds sim/ against /repo's working tree with go1.26.8 (GOTOOLCHAIN=local, offline), fans seeds out to 16 worker processes, minimises and replays violations in fresh processes. Exit 0 held, 1 violation, 2 harness trouble. VERIF_SEED selects the seed.",
    }
    json.dump(m, open(os.path.join(HERE, "MANIFEST.json"), "w"), indent=1)
    print("wrote MANIFEST.json with", len(checks), "checks;", len(na), "not applicable/pending")

if __name__ == "__main__":
    main()
