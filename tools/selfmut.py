#!/usr/bin/env python3
"""Sensitivity wave: applies each deliberate property-breaking edit of the DESIGN.md 'S' lists to a scratch
worktree of gmrtd (never /repo), checks that it compiles and that the pinned suite of the touched packages passes,
runs the named quick check against it and records whether the check reports a violation.
usage: selfmut.py [id-prefix ...]   results -> /verif/seeded/selfmut_results.json"""
import json, os, subprocess, sys, time

WT = "/tmp/wt_self"
ENV = dict(os.environ, GOFLAGS="-mod=mod", GOPROXY="off")

# (id, property, file, old, new, packages-to-test)
M = [
 # ---- C03
 ("C03-skip-mac", "C03", "iso7816/secure_messaging.go", "	if err = sm.decodeVerifyMAC(tlv); err != nil {\n		return nil, fmt.Errorf(\"(sm.Decode) verify MAC error: %w\", err)\n	}\n", "	_ = sm.decodeVerifyMAC\n", "./iso7816/"),
 ("C03-mac-without-ssc", "C03", "iso7816/secure_messaging.go", "	out = append(out, ssc...)\n	out = append(out, smRApduTlv.NodeByTag(0x85).Encode()...)", "	_ = ssc\n	out = append(out, smRApduTlv.NodeByTag(0x85).Encode()...)", "./iso7816/"),
 ("C03-drop-sw-compare", "C03", "iso7816/secure_messaging.go", "	if smRApdu.Status != rApduStatus {", "	if false && smRApdu.Status != rApduStatus {", "./iso7816/"),
 ("C03-ignore-unpad-failure", "C03", "iso7816/secure_messaging.go", "	out, err = sm.cryptoUnpad(tmpDecryptedValue)\n	if err != nil {\n		return nil, fmt.Errorf(\"[sm.decodeSmRApduData] cryptoUnpad error: %w\", err)\n	}\n", "	out, err = sm.cryptoUnpad(tmpDecryptedValue)\n	if err != nil {\n		out, err = tmpDecryptedValue, nil\n	}\n", "./iso7816/"),
 ("C03-mac-compare-prefix", "C03", "iso7816/secure_messaging.go", "	if !bytes.Equal(expMAC, actMAC) {", "	if len(actMAC) < 4 || !bytes.Equal(expMAC[:4], actMAC[:4]) {", "./iso7816/"),
 # ---- C10
 ("C10-tag-ignores-ins-parity", "C10", "iso7816/secure_messaging.go", "		if cApdu.ins%2 == 0 {\n			tag = 0x87\n		} else {\n			tag = 0x85\n		}", "		tag = 0x87", "./iso7816/"),
 ("C10-no-naked-decrement", "C10", "iso7816/secure_messaging.go", "		sm.sscDecrement()\n\n		return nil, fmt.Errorf(\"[SM.Decode] Unable to decode", "		return nil, fmt.Errorf(\"[SM.Decode] Unable to decode", "./iso7816/"),
 ("C10-wrap-to-one", "C10", "iso7816/secure_messaging.go", "		// handle overflow condition\n		sm.ssc = make([]byte, len(sm.ssc))", "		// handle overflow condition\n		sm.ssc = make([]byte, len(sm.ssc))\n		sm.ssc[len(sm.ssc)-1] = 1", "./iso7816/"),
 ("C10-do97-dropped-for-256", "C10", "iso7816/capdu.go", "func (apdu *CApdu) HaveLe() bool {\n	return apdu.le > 0\n}", "func (apdu *CApdu) HaveLe() bool {\n	return apdu.le > 0 && apdu.le != 65536\n}", "./iso7816/"),
 # ---- C13
 ("C13-accept-overlong-chunk", "C13", "iso7816/nfc_session.go", "	if len(rapdu.Data) > length {\n		// more data than requested, possible abuse\n		return nil, fmt.Errorf(\"[ReadBinaryFromOffset] More", "	if false && len(rapdu.Data) > length {\n		// more data than requested, possible abuse\n		return nil, fmt.Errorf(\"[ReadBinaryFromOffset] More", "./iso7816/"),
 ("C13-no-final-length-check", "C13", "iso7816/nfc_session.go", "		if len(fileData) != totalBytes {", "		if false && len(fileData) != totalBytes {", "./iso7816/"),
 ("C13-fallback-not-kept", "C13", "iso7816/nfc_session.go", "				if effectiveMax != maxReadAmount {\n					maxReadAmount = effectiveMax\n					nfc.maxLe = effectiveMax\n				}", "				if effectiveMax != maxReadAmount {\n					nfc.maxLe = effectiveMax\n				}", "./iso7816/"),
 ("C13-offset-off-by-one-after-256", "C13", "iso7816/nfc_session.go", "				tmpData, readErr = nfc.ReadBinaryFromOffset(fileBuf.Len(), bytesToRead)", "				off := fileBuf.Len()\n				if off == 0x7F00 {\n					off++\n				}\n				tmpData, readErr = nfc.ReadBinaryFromOffset(off, bytesToRead)", "./iso7816/"),
 # ---- C05
 ("C05-skip-rndifd-echo", "C05", "bac/bac.go", "	if !bytes.Equal(rndIfd, rspRndIfd) {", "	if false && !bytes.Equal(rndIfd, rspRndIfd) {", "./bac/"),
 ("C05-skip-rndic-echo", "C05", "bac/bac.go", "	if !bytes.Equal(rndIcc, rspRndIcc) {", "	if false && !bytes.Equal(rndIcc, rspRndIcc) {", "./bac/"),
 ("C05-sm-before-check", "C05", "bac/bac.go", "	kIc, err = bac.processResponse(bacRsp, kEnc, kMac, rndIfd, rndIcc)\n	if err != nil {\n		return result,", "	kIc, err = bac.processResponse(bacRsp, kEnc, kMac, rndIfd, rndIcc)\n	if err != nil {\n		bac.setupSecureMessaging(kEnc, kMac, rndIcc, rndIfd)\n		return result,", "./bac/"),
 # ---- C04
 ("C04-skip-token-compare", "C04", "pace/pace.go", "		if !bytes.Equal(tIc2, tIc) {", "		if false && !bytes.Equal(tIc2, tIc) {", "./pace/"),
 ("C04-fail-on-first-unsupported", "C04", "pace/pace.go", "			slog.Warn(\"selectPaceConfig: skipping unsupported PACE protocol\", \"protocol\", paceInfo.Protocol, \"error\", err)\n			continue", "			return nil, nil, err", "./pace/"),
 ("C04-cam-without-ka-check", "C04", "pace/pace.go", "	if !KA.Equal(*pubMapIC) {\n		return fmt.Errorf(\"[doCamEcdh] PACE CAM", "	if false && !KA.Equal(*pubMapIC) {\n		return fmt.Errorf(\"[doCamEcdh] PACE CAM", "./pace/"),
 ("C04-param17-wrong-curve", "C04", "pace/domain_param.go", "			ec:     brainpool.P512r1()}, nil", "			ec:     brainpool.P512t1()}, nil", "./pace/"),
 # ---- C06
 ("C06-selected-false-is-success", "C06", "chipauth/chip_auth.go", "		if !selected {\n			return nil, fmt.Errorf(\"[doCaEcdh] unable to select DG14 after performing CA\")\n		}", "		_ = selected", "./chipauth/"),
 ("C06-ignore-keyid", "C06", "chipauth/chip_auth.go", "			if (caInfo.KeyId == nil) ||\n				((curPubKey.KeyId != nil) && (caInfo.KeyId.Cmp(curPubKey.KeyId) == 0)) {\n				return curPubKey, nil\n			}", "			return curPubKey, nil", "./chipauth/"),
 ("C06-probe-error-ignored", "C06", "chipauth/chip_auth.go", "		selected, err := (*chipAuth.nfcSession).SelectEF(MRTDFileIdDG14)\n		if err != nil {\n			return nil, fmt.Errorf(\"[doCaEcdh] SelectEF(DG14) error: %w\", err)\n		}", "		selected, err := (*chipAuth.nfcSession).SelectEF(MRTDFileIdDG14)\n		if err != nil {\n			selected = true\n		}", "./chipauth/"),
 # ---- C07
 ("C07-skip-digest-compare", "C07", "activeauth/active_auth.go", "			if !bytes.Equal(d, expD) {", "			if false && !bytes.Equal(d, expD) {", "./activeauth/"),
 ("C07-ignore-supplied-challenge", "C07", "activeauth/active_auth.go", "	if activeAuth.challenge != nil {\n		slog.Debug(\"randomIfd\", \"rndIfd\", utils.BytesToHex(activeAuth.challenge), \"source\", \"caller-supplied\")\n		return bytes.Clone(activeAuth.challenge)\n	}", "	_ = activeAuth.challenge", "./activeauth/"),
 ("C07-verifier-no-nonce-compare", "C14", "verifier/verifier.go", "		if !bytes.Equal(caBundle.ActiveAuth.Nonce, v.aaChallenge) {", "		if false && !bytes.Equal(caBundle.ActiveAuth.Nonce, v.aaChallenge) {", "./verifier/"),
 ("C07-digest-compare-prefix", "C07", "activeauth/active_auth.go", "			if !bytes.Equal(d, expD) {", "			if !bytes.Equal(d[:8], expD[:8]) {", "./activeauth/"),
 # ---- C01
 ("C01-drop-messagedigest-compare", "C01", "cms/cms.go", "	if !bytes.Equal(contentHash, aaMessageDigestHash) {", "	if false && !bytes.Equal(contentHash, aaMessageDigestHash) {", "./cms/"),
 ("C01-skip-ds-extensions", "C01", "cms/cms.go", "	if err := validateDSCertExtensions(cert); err != nil {\n		return nil, fmt.Errorf(\"[Verify] DS cert %w\", err)\n	}\n", "", "./cms/"),
 ("C01-hash-not-present-is-ok", "C01", "passiveauth/passive_auth.go", "		if len(sodHash) <= 0 {\n			return fmt.Errorf(\"[validateDgHashes] DG hash is not present in SoD (dg:%1d) - Data injection!\", dgId)\n		}", "		if len(sodHash) <= 0 {\n			continue\n		}", "./passiveauth/"),
 ("C01-parent-validity-skipped", "C01", "cms/cms.go", "	if err := checkParentValidityPeriod(parent.TbsCertificate.Validity, config.ReferenceTime, idx); err != nil {\n		return err\n	}\n", "", "./cms/"),
 ("C01-ml-pool-before-verify", "C01", "cms/signed_data_cert_pool.go", "	certChain, err = signedData.Verify(rootCertPool)\n	if err != nil {\n		return nil, fmt.Errorf(\"[CreateCertPoolFromSignedData] signedData.Verify error: %w\", err)\n	}\n	if len(certChain) < 1 {\n		return nil, fmt.Errorf(\"[CreateCertPoolFromSignedData] empty cert chain\")\n	}", "	certChain, err = signedData.Verify(rootCertPool)\n	_ = certChain\n	err = nil", "./cms/"),
 ("C01-cardsec-not-verified", "C01", "passiveauth/passive_auth.go", "		result.CardSec.CertChain, err = doc.Mf.CardSecurity.SD.Verify(countryCscaCertPool)\n		if err != nil {\n			return result, fmt.Errorf(\"[PassiveAuth] unable to verify SignedData (CardSecurity): %w\", err)\n		}", "		result.CardSec.CertChain, err = doc.Mf.CardSecurity.SD.Verify(countryCscaCertPool)\n		err = nil", "./passiveauth/"),
 # ---- C02
 ("C02-gate-on-protocol-only", "C02", "document/session.go", "	if session.PassiveAuthResult == nil || !session.PassiveAuthResult.Success {\n		return CHIP_AUTH_STATUS_NONE\n	}\n", "", "./document/"),
 ("C02-drop-cardsec-condition", "C02", "document/session.go", "	if status == CHIP_AUTH_STATUS_PACE_CAM && session.PassiveAuthResult.CardSec == nil {\n		return CHIP_AUTH_STATUS_NONE\n	}\n", "", "./document/"),
 ("C02-trusted-without-verifyerr", "C02", "document/document_ex.go", "	dataTrusted := docEx.Session.DocumentVerifyErr == nil &&\n		docEx.Session.PassiveAuthResult != nil &&", "	dataTrusted := docEx.Session.PassiveAuthResult != nil &&", "./document/"),
 ("C02-no-stripped-dg15-check", "C02", "document/document.go", "	if (doc.Mf.Lds1.Dg15 == nil) && doc.Mf.Lds1.Sod.HasDgHash(15) {\n		return fmt.Errorf(\"(doc.Verify) DG15 file missing but referenced by SOD\")\n	}", "", "./document/"),
 # ---- C08
 ("C08-skip-dg13", "C08", "reader/reader.go", "		if reader.skipImages && (dgHash.DataGroupNumber == 2 || dgHash.DataGroupNumber == 7) {", "		if dgHash.DataGroupNumber == 13 || reader.skipImages && (dgHash.DataGroupNumber == 2 || dgHash.DataGroupNumber == 7) {", "./reader/"),
 ("C08-no-bac-fallback-after-pace-error", "C08", "reader/reader.go", "	if reader.nfc.SM() != nil {\n		return nil\n	}\n	reader.reportPhase(STATUS_PHASE_ACCESS_CONTROL_BAC)", "	if reader.nfc.SM() != nil || state.docEx.Session.PaceErr != nil {\n		return nil\n	}\n	reader.reportPhase(STATUS_PHASE_ACCESS_CONTROL_BAC)", "./reader/"),
 # ---- C11
 ("C11-bac-success-before-check", "C11", "bac/bac.go", "	var kIc []byte\n	kIc, err = bac.processResponse(", "	result.Success = true\n	var kIc []byte\n	kIc, err = bac.processResponse(", "./bac/"),
 ("C11-getchallenge-length-unchecked", "C11", "iso7816/nfc_session.go", "	if len(rapdu.Data) != length {\n		return nil, fmt.Errorf(\"[GetChallenge] Incorrect length", "	if len(rapdu.Data) < length {\n		return nil, fmt.Errorf(\"[GetChallenge] Incorrect length", "./iso7816/"),
 # ---- C14
 ("C14-skip-termpub-consistency", "C14", "chipauth/chip_auth.go", "	if termPub.X.Cmp(expX) != 0 || termPub.Y.Cmp(expY) != 0 {", "	if false && (termPub.X.Cmp(expX) != 0 || termPub.Y.Cmp(expY) != 0) {", "./chipauth/"),
 ("C14-ignore-smssc", "C14", "chipauth/chip_auth.go", "	if len(evidence.SmSsc) > 0 {\n		sscInit.Sub(new(big.Int).SetBytes(evidence.SmSsc), big.NewInt(1))\n	}", "	_ = evidence.SmSsc", "./chipauth/"),
 ("C14-cam-termkapub-unchecked", "C14", "pace/pace.go", "	if !termKaPub.Equal(*storedTermKaPub) {", "	if false && !termKaPub.Equal(*storedTermKaPub) {", "./pace/"),
 # ---- C15
 ("C15-no-sha-on-evidence", "C15", "document/session_cbor.go", "	if !bytes.Equal(digest[:], env.SHA256) {\n		return nil, fmt.Errorf(\"[NewChipAuthEvidenceFromCbor] SHA-256", "	if false && !bytes.Equal(digest[:], env.SHA256) {\n		return nil, fmt.Errorf(\"[NewChipAuthEvidenceFromCbor] SHA-256", "./document/"),
 ("C15-newer-version-accepted", "C15", "document/document_cbor.go", "	if env.Version > envelopeVersion {", "	if env.Version > envelopeVersion+1 {", "./document/"),
 ("C15-magic-prefix", "C15", "document/document_ex_cbor.go", "	if env.Magic != documentExMagic {", "	if !strings.HasPrefix(env.Magic, documentExMagic) {", "./document/"),
 ("C15-forget-dg16", "C15", "document/document_cbor.go", "	if mf.Lds1.Dg16 != nil {\n		raw.Dg16 = mf.Lds1.Dg16.GetRawData()\n	}", "", "./document/"),
 # ---- C20
 ("C20-setter-without-lock", "C20", "reader/reader.go", "	reader.mu.Lock()\n	defer reader.mu.Unlock()\n	reader.aaChallenge = bytes.Clone(challenge)", "	reader.aaChallenge = bytes.Clone(challenge)", "./reader/"),
 ("C20-verify-lock-late", "C20", "verifier/verifier.go", "	v.mu.Lock()\n	defer v.mu.Unlock()\n\n	doc, caBundle, err := document.UnmarshalVerifiableDoc(data)", "	chal := v.aaChallenge\n	v.mu.Lock()\n	defer v.mu.Unlock()\n	v.aaChallenge = chal\n\n	doc, caBundle, err := document.UnmarshalVerifiableDoc(data)", "./verifier/"),
 ("C20-once-replaced-by-nil-check", "C20", "mobile/mobile.go", "	cscaOnce.Do(func() {\n		cscaCertPool, cscaInitErr = cms.DefaultMasterList()\n	})", "	if cscaCertPool == nil {\n		cscaCertPool, cscaInitErr = cms.DefaultMasterList()\n	}", "./mobile/"),
]

def sh(cmd, cwd=None, env=ENV, timeout=3600):
    p = subprocess.run(cmd, shell=True, cwd=cwd, env=env, capture_output=True, text=True, timeout=timeout)
    return p.returncode, p.stdout + p.stderr

def main():
    sel = sys.argv[1:]
    res_path = "/verif/seeded/selfmut_results.json"
    results = json.load(open(res_path)) if os.path.exists(res_path) else {}
    for mid, prop, path, old, new, pkgs in M:
        if sel and not any(mid.startswith(s) for s in sel):
            continue
        sh("git checkout -- . && git clean -fdq", cwd=WT)
        fp = os.path.join(WT, path)
        src = open(fp).read()
        if src.count(old) != 1:
            results[mid] = {"property": prop, "status": "PATCH-DOES-NOT-APPLY", "count": src.count(old)}
            print(mid, "PATCH-DOES-NOT-APPLY", src.count(old)); continue
        src = src.replace(old, new)
        if "strings.HasPrefix" in new and '"strings"' not in src:
            src = src.replace('import (\n', 'import (\n\t"strings"\n', 1)
        open(fp, "w").write(src)
        rc, out = sh("gofmt -l " + path + "; go build ./... 2>&1 | grep -v pcsc | grep -v '^#' | head -5; go vet " + pkgs + " 2>&1 | head -3", cwd=WT)
        rc, out = sh("go test -vet=off -count=1 " + pkgs + " ./reader/ ./verifier/ ./mobile/ 2>&1 | tail -8", cwd=WT)
        suite_ok = "FAIL" not in out and "cannot" not in out and "undefined" not in out
        if not suite_ok:
            results[mid] = {"property": prop, "status": "SUITE-FAILS-OR-NO-COMPILE", "out": out[-600:]}
            print(mid, "SUITE-FAILS", out[-300:].replace("\n", " | ")); continue
        t0 = time.time()
        rc, out = sh(f"/verif/tools/trymut.sh {WT} {prop}", env=dict(os.environ))
        caught = "VIOLATION property=" + prop in out
        trouble = "HARNESS" in out or "BUILD" in out
        first = [l for l in out.splitlines() if l.startswith("violation")][:2]
        results[mid] = {"property": prop, "status": "CAUGHT" if caught else ("TROUBLE" if trouble else "MISSED"), "seconds": round(time.time() - t0, 1), "first": first, "diff": sh("git diff", cwd=WT)[1][:1500]}
        print(mid, results[mid]["status"], results[mid]["seconds"], (first[0][:160] if first else out[-200:].replace("\n", " | ")))
        json.dump(results, open(res_path, "w"), indent=1)
    sh("git checkout -- . && git clean -fdq", cwd=WT)
    json.dump(results, open(res_path, "w"), indent=1)

if __name__ == "__main__":
    main()
