#!/usr/bin/env python3
"""Regression run of the final checks against every seeded change: for each /verif/seeded/<id>/ applies patch.diff to a scratch
worktree of /repo HEAD (3-way fallback for patches written against an earlier base), runs the owning property's quick check
through tools/trymut.sh and records CAUGHT / MISSED in /verif/seeded/recheck_results.json (RECHECK_OUT overrides; VERIF_SEED
selects the seed of the quick tier). usage: recheck.py [id-prefix ...]"""
import json, os, subprocess, sys, time, glob
WT = os.environ.get("RECHECK_WT", "/tmp/wt_recheck")
def sh(cmd, cwd=None, timeout=3600):
    p = subprocess.run(cmd, shell=True, cwd=cwd, capture_output=True, text=True, timeout=timeout)
    return p.returncode, p.stdout + p.stderr
def main():
    want = sys.argv[1:]
    if not os.path.isdir(WT):
        sh(f"git -C /repo worktree add -q --detach {WT} HEAD")
    path = os.environ.get("RECHECK_OUT", "/verif/seeded/recheck_results.json")
    res = json.load(open(path)) if os.path.exists(path) else {}
    head = sh("git -C /repo rev-parse --short HEAD")[1].strip()
    for d in sorted(glob.glob("/verif/seeded/C*/")):
        mid = os.path.basename(d.rstrip("/"))
        if want and not any(mid.startswith(w) for w in want):
            continue
        prop = mid.split("-")[0]
        sh(f"git reset -q --hard; git checkout -q --detach {head}; git reset -q --hard; git clean -fdq", cwd=WT)
        ok = False
        for pf in ("patch.rebased.diff", "patch.diff"):
            if os.path.exists(d + pf):
                rc, out = sh(f"git apply {d}{pf}", cwd=WT)
                if rc != 0:
                    rc, out = sh(f"git apply --3way {d}{pf} && git reset -q", cwd=WT)
                if rc == 0:
                    ok = True
                    break
                sh("git reset -q --hard; git clean -fdq", cwd=WT)
        if not ok:
            res[mid] = {"property": prop, "status": "PATCH-DOES-NOT-APPLY", "repo": head}
            print(mid, "PATCH-DOES-NOT-APPLY", flush=True)
            continue
        t0 = time.time()
        rc, out = sh(f"/verif/tools/trymut.sh {WT} {prop}")
        caught = f"VIOLATION property={prop}" in out
        first = [l for l in out.splitlines() if l.startswith("violation")][:1]
        st = "CAUGHT" if caught else ("TROUBLE" if ("HARNESS" in out or "BUILD" in out) else "MISSED")
        res[mid] = {"property": prop, "status": st, "seconds": round(time.time() - t0, 1), "first": [f[:300] for f in first], "repo": head}
        print(mid, st, res[mid]["seconds"], (first[0][:160] if first else out[-160:].replace("\n", " | ")), flush=True)
        json.dump(res, open(path, "w"), indent=1)
    sh("git reset -q --hard; git clean -fdq", cwd=WT)
if __name__ == "__main__":
    main()
