#!/usr/bin/env python3
"""Confirms a property-breaking change delivered by a sub-agent and runs the registered quick checks against it.
usage: evalmut.py <ID> <property> [<property>...]      (ID = directory under /tmp/mut_out)
Steps (all in the scratch worktree /tmp/wt_eval, never /repo): apply patch.diff; build; full pinned suite must pass;
the demonstration must fail with the change and pass without it; then tools/trymut.sh for each property.
On confirmation the change is kept as /verif/seeded/<ID>/ (patch.diff, demo_test.go, notes.md, meta.json)."""
import json, os, re, shutil, subprocess, sys, time

WT = os.environ.get("EVAL_WT", "/tmp/wt_eval")
ENV = dict(os.environ, GOFLAGS="-mod=mod", GOPROXY="off")

def sh(cmd, cwd=None, env=ENV, timeout=7200):
    p = subprocess.run(cmd, shell=True, cwd=cwd, env=env, capture_output=True, text=True, timeout=timeout)
    return p.returncode, p.stdout + p.stderr

def main():
    mid, props = sys.argv[1], sys.argv[2:]
    src = f"/tmp/mut_out/{mid}"
    if not os.path.isdir(WT):
        sh(f"git -C /repo worktree add -q --detach {WT} HEAD")
    sh("git reset -q --hard; git checkout -q --detach $(git -C /repo rev-parse HEAD) && git reset -q --hard && git clean -fdq", cwd=WT)
    demo = open(f"{src}/demo_test.go").read()
    head = "\n".join(demo.splitlines()[:6])
    m = re.search(r"(activeauth|bac|chipauth|cms|cryptoutils|document|iso7816|mobile|pace|passiveauth|password|reader|tlv|verifier|mrz|utils)/", head)
    pkg = m.group(1) if m else None
    r = re.search(r"-run\s+(\S+)", head)
    runname = r.group(1) if r else "."
    meta = {"id": mid, "breaks_property": mid.split("-")[0], "checked_against": props, "demo_package": pkg, "demo_run": runname}
    src_patch = f"{src}/patch.diff"
    rc, out = sh(f"git apply {src}/patch.diff", cwd=WT)
    if rc != 0:
        # the change was written against an earlier commit of /repo (before a later fix: commit): fall back to a 3-way merge
        rc, out = sh(f"git apply --3way {src}/patch.diff && git reset -q", cwd=WT)
        if rc != 0:
            sh("git reset -q --hard && git clean -fdq", cwd=WT)
            print(mid, "PATCH-DOES-NOT-APPLY", out[-300:]); return 1
        sh(f"git diff > {src}/patch.rebased.diff", cwd=WT)
        src_patch = f"{src}/patch.rebased.diff"
        sh(f"git checkout -- .", cwd=WT)
        sh(f"git apply {src_patch}", cwd=WT)
        meta["rebased_onto"] = sh("git -C /repo rev-parse --short HEAD")[1].strip()
    rc, out = sh("go build ./... 2>&1 | grep -v pcsc | grep -v '^#' | grep -v PKG_CONFIG | grep -v 'Perhaps\\|Package' | head", cwd=WT)
    rc, out = sh("go test -vet=off -count=1 ./... 2>&1 | grep -v '^ok\\|no test files\\|pcsc\\|PKG_CONFIG\\|Perhaps\\|Package\\|^#' | head -20", cwd=WT)
    bad = [l for l in out.splitlines() if l.strip() and "gmrtd-reader" not in l and l.strip() != "FAIL"]
    meta["suite_with_change"] = "passes" if not bad else "FAILS: " + " | ".join(bad[:5])
    if bad:
        print(mid, "SUITE-FAILS-WITH-CHANGE", bad[:5]); return 1
    demo_path = os.path.join(WT, pkg, f"zz_mutdemo_{mid.replace('-', '_').lower()}_test.go")
    shutil.copy(f"{src}/demo_test.go", demo_path)
    rc1, out1 = sh(f"go test -vet=off -count=1 -run '{runname}' ./{pkg}/ 2>&1 | tail -15", cwd=WT)
    fails_with = "FAIL" in out1 and "build failed" not in out1
    sh(f"git apply -R {src_patch}", cwd=WT)
    rc2, out2 = sh(f"go test -vet=off -count=1 -run '{runname}' ./{pkg}/ 2>&1 | tail -5", cwd=WT)
    passes_without = ("ok " in out2 or "ok\t" in out2) and "FAIL" not in out2
    meta["demo_fails_with_change"], meta["demo_passes_without_change"] = fails_with, passes_without
    os.remove(demo_path)
    if not (fails_with and passes_without):
        print(mid, "DEMO-NOT-CONFIRMED", "with:", out1[-300:].replace("\n", " | "), "without:", out2[-200:].replace("\n", " | "))
        return 1
    sh(f"git apply {src_patch}", cwd=WT)
    results = {}
    for p in props:
        t0 = time.time()
        rc, out = sh(f"/verif/tools/trymut.sh {WT} {p}", env=dict(os.environ))
        caught = f"VIOLATION property={p}" in out
        first = [l for l in out.splitlines() if l.startswith("violation")][:2]
        results[p] = {"quick_check": "CAUGHT" if caught else ("TROUBLE" if ("HARNESS" in out or "BUILD" in out) else "MISSED"), "seconds": round(time.time() - t0, 1), "first_violation": [f[:400] for f in first]}
        print(mid, p, results[p]["quick_check"], results[p]["seconds"], (first[0][:200] if first else out[-200:].replace("\n", " | ")))
    meta["results"] = results
    sh("git checkout -- . && git clean -fdq", cwd=WT)
    dst = f"/verif/seeded/{mid}"
    os.makedirs(dst, exist_ok=True)
    meta["base_commit"] = sh("git -C /repo rev-parse --short HEAD")[1].strip()
    for f in ("patch.diff", "patch.rebased.diff", "patch.orig-c771755.diff", "demo_test.go", "notes.md"):
        if os.path.exists(f"{src}/{f}"):
            shutil.copy(f"{src}/{f}", f"{dst}/{f}")
    meta["what_it_needs"] = "see notes.md"
    meta["what_i_ran"] = f"git apply patch.diff in scratch worktree {WT} (never /repo); go test -vet=off -count=1 ./... (passes); demo: go test -run '{runname}' ./{pkg}/ fails with the change, passes without; tools/trymut.sh {WT} " + " ".join(props)
    json.dump(meta, open(f"{dst}/meta.json", "w"), indent=1)
    return 0

if __name__ == "__main__":
    sys.exit(main())
