#!/bin/bash
# usage: tools/trymut.sh <worktree-with-mutation-applied> <property>...   (quick tier, isolated output)
# Runs the registered quick checks against a scratch worktree of gmrtd without touching /repo or /verif's evidence.
WT="$1"; shift
OUT=/var/tmp/mutrun/$(basename "$WT")
mkdir -p "$OUT"; cp /verif/known_findings.json "$OUT/"
for p in "$@"; do
  VERIF_REPO="$WT" VERIF_OUT="$OUT" VERIF_SEED="${VERIF_SEED:-1}" /verif/run.sh "$p" "${TIER:-quick}" 2>&1 | grep -E "^VIOLATION|^violation|^done|HARNESS|BUILD|KNOWN" | cut -c1-300
done
