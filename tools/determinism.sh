#!/bin/bash
# Determinism proof on whole quick tiers: every property is run twice (16 and 5 worker processes, i.e. a
# different partition of the runs over fresh processes) and the (run index, event-log fingerprint) pairs are diffed.
# usage: tools/determinism.sh [seed] [properties...]
SEED="${1:-1}"; shift
PROPS="${@:-C01 C02 C03 C04 C05 C06 C07 C08 C09 C10 C11 C12 C13 C14 C15 C20}"
OUT=/var/tmp/determinism; mkdir -p $OUT; cp /verif/known_findings.json $OUT/
bad=0
for p in $PROPS; do
  for w in 16 5; do
    VERIF_OUT=$OUT VERIF_SEED=$SEED VERIF_WORKERS=$w VERIF_DUMP_FPS=$OUT/$p.$w.fps /verif/run.sh $p quick >/dev/null 2>&1
  done
  n=$(wc -l < $OUT/$p.16.fps)
  if cmp -s $OUT/$p.16.fps $OUT/$p.5.fps; then echo "$p seed=$SEED runs=$n identical"; else echo "$p seed=$SEED MISMATCH: $(diff $OUT/$p.16.fps $OUT/$p.5.fps | head -3)"; bad=1; fi
done
exit $bad
