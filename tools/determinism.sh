#!/bin/bash
# Determinism proof on whole quick tiers: every property is run twice (16 and 5 worker processes, i.e. a
# different partition of the runs over fresh processes) and the (run index, event-log fingerprint) pairs are diffed.
# usage: tools/determinism.sh [seed] [properties...]
SEED="${1:-1}"; shift
PROPS="${@:-C01 C02 C03 C04 C05 C06 C07 C08 C09 C10 C11 C12 C13 C14 C15 C20}"
OUT=/var/tmp/determinism; mkdir -p $OUT; cp /verif/known_findings.json $OUT/
bad=0
for p in $PROPS; do
  rm -f $OUT/$p.16.fps $OUT/$p.5.fps
  for w in 16 5; do
    VERIF_OUT=$OUT VERIF_SEED=$SEED VERIF_WORKERS=$w VERIF_DUMP_FPS=$OUT/$p.$w.fps /verif/run.sh $p quick >/dev/null 2>&1
  done
  if [ ! -s $OUT/$p.16.fps ] || [ ! -s $OUT/$p.5.fps ]; then echo "$p seed=$SEED: a run did not complete (no fingerprint file)"; bad=1; continue; fi
  # compare the runs present in both (a tier cut short by its wall-clock budget executes fewer runs with 5 workers)
  res=$(join <(sort -k1,1 $OUT/$p.16.fps) <(sort -k1,1 $OUT/$p.5.fps) | awk '{n++; if ($2 != $3) {bad++; if (bad <= 3) printf "run %s: %s vs %s; ", $1, $2, $3}} END {printf "common=%d mismatches=%d", n, bad+0}')
  echo "$p seed=$SEED runs16=$(wc -l < $OUT/$p.16.fps) runs5=$(wc -l < $OUT/$p.5.fps) $res"
  case "$res" in *"mismatches=0") ;; *) bad=1;; esac
done
exit $bad
