#!/bin/bash
# validates MANIFEST.json and every evidence file against the schemas
cd "$(dirname "$0")/.." || exit 2
python3-vt - <<'PY'
import json,jsonschema,glob,sys
ok=True
try:
    jsonschema.validate(json.load(open('MANIFEST.json')), json.load(open('/root/.vp/MANIFEST.schema.json'))); print('MANIFEST ok')
except Exception as e:
    ok=False; print('MANIFEST INVALID', str(e)[:300])
es=json.load(open('/root/.vp/EVIDENCE.schema.json'))
for f in sorted(glob.glob('evidence/*.json')):
    try:
        jsonschema.validate(json.load(open(f)), es); print(f,'ok')
    except Exception as e:
        ok=False; print(f,'INVALID', str(e)[:300])
sys.exit(0 if ok else 1)
PY
