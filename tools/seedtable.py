#!/usr/bin/env python3
"""Writes /verif/seeded/README.md: one line per seeded property-breaking change with the result of each quick check run against it."""
import json, os, glob
rows = []
for d in sorted(glob.glob('/verif/seeded/*/meta.json')):
    m = json.load(open(d))
    notes = os.path.join(os.path.dirname(d), 'notes.md')
    title = open(notes).readline().strip().lstrip('# ').strip() if os.path.exists(notes) else m['id']
    res = '; '.join(f"{p}: {r['quick_check']}" + (f" ({r['first_violation'][0].split(' detail=')[0].replace('violation: ', '')})" if r.get('first_violation') else '') for p, r in m.get('results', {}).items())
    rows.append(f"| {m['id']} | {title.split(' - ', 1)[-1][:110]} | {res} |")
open('/verif/seeded/README.md', 'w').write(
    "# Seeded property-breaking changes\n\nEach directory holds `patch.diff` (against /repo at `base_commit` in meta.json), a demonstration test that fails with the change and passes without it, the author's notes, and `meta.json` with what was run. "
    "All changes compile and pass the pinned suite. They were written by sub-agents that saw only the property text (never /verif). "
    "`selfmut_results.json` holds the results of my own one-line sensitivity edits (tools/selfmut.py).\n\n| id | change | quick checks run against it |\n|---|---|---|\n" + "\n".join(rows) + "\n")
print(len(rows), "rows")
